#!/bin/sh
# Builds the VC generator from the sources in /verif/govc (offline).
set -eu
cd "$(dirname "$0")"
export GOFLAGS=-mod=mod GOPROXY=off GOSUMDB=off GOTOOLCHAIN=local
mkdir -p bin evidence
(cd govc && go build -o ../bin/govc .)
echo "govc built"
