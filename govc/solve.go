package main

import (
	"bytes"
	"context"
	"fmt"
	"math/big"
	"os"
	"os/exec"
	"regexp"
	"sort"
	"strings"
	"sync"
	"time"
)

type ObResult struct {
	Ob       *Obligation `json:"ob"`
	Instance string      `json:"instance,omitempty"`
	Status   string      `json:"status"` // unsat sat unknown error
	Solver   string      `json:"solver"`
	Ms       int64       `json:"ms"`
	Detail   string      `json:"detail,omitempty"`
	Script   *Script     `json:"-"`
	InstVals []int       `json:"-"`
	Cross    string      `json:"cross,omitempty"` // second solver agreeing (thorough)
}

func (r *ObResult) OK() bool {
	if r.Ob.ExpectSat {
		return r.Status == "sat" || r.Status == "unknown" // cover checks: only a refutation is a failure
	}
	return r.Status == "unsat"
}

func (r *ObResult) FullName() string {
	return r.Ob.Func + "/" + r.Ob.Name + r.Instance
}

func (s *Script) obligations() []*Obligation {
	var obs []*Obligation
	for _, it := range s.Items {
		if it.Ob != nil {
			obs = append(obs, it.Ob)
		}
	}
	return obs
}

// instances enumerates the cartesian product of the split ranges.
func (s *Script) instances() [][]int {
	out := [][]int{{}}
	for si, sp := range s.Splits {
		var next [][]int
		for _, base := range out {
			hi := sp.Hi
			if sp.HiVar != "" {
				hi = sp.Lo - 1
				for pj := 0; pj < si; pj++ {
					if s.Splits[pj].Var == sp.HiVar {
						hi = base[pj] + sp.HiOff
					}
				}
			}
			for v := sp.Lo; v <= hi; v++ {
				inst := append(append([]int{}, base...), v)
				next = append(next, inst)
			}
		}
		out = next
	}
	return out
}

func (s *Script) instName(inst []int) string {
	if len(inst) == 0 {
		return ""
	}
	var parts []string
	for i, sp := range s.Splits {
		parts = append(parts, fmt.Sprintf("%s=%d", sp.Var, inst[i]))
	}
	return "@" + strings.Join(parts, ",")
}

func (vc *VC) globalDecls() string {
	var sb strings.Builder
	sb.WriteString(vc.structDecls())
	var keys []string
	for k := range vc.heapSorts {
		keys = append(keys, k)
	}
	sort.Strings(keys)
	for _, k := range keys {
		fmt.Fprintf(&sb, "(declare-const %s!0 %s)\n", k, vc.heapSorts[k].SMT())
	}
	sb.WriteString("(declare-const top!0 Int)\n(assert (>= top!0 0))\n")
	{
		var pn []string
		for n := range vc.pureDecls {
			pn = append(pn, n)
		}
		sort.Strings(pn)
		for _, n := range pn {
			sb.WriteString(vc.pureDecls[n] + "\n")
		}
	}
	pureAx := ""
	if vc.cs != nil {
		var names []string
		for n, d := range vc.cs.Defs {
			if d.Rec {
				names = append(names, n)
			}
		}
		sort.Strings(names)
		// opaque definitions: uninterpreted symbols (their definition is expanded only where revealed)
		var onames []string
		for n, d := range vc.cs.Defs {
			if d.Opaque {
				onames = append(onames, n)
			}
		}
		sort.Strings(onames)
		for _, n := range onames {
			d := vc.cs.Defs[n]
			var ps []string
			for _, srt := range d.Sorts {
				ps = append(ps, sortByName(srt).SMT())
			}
			res := "Bool"
			if d.IntResult {
				res = "Int"
			}
			if d.StrResult {
				res = "Str"
			}
			if d.StrsResult {
				res = "(GSeq Str)"
			}
			fmt.Fprintf(&sb, "(declare-fun spec.%s (%s) %s)\n", n, strings.Join(ps, " "), res)
		}
		for _, n := range names {
			d := vc.cs.Defs[n]
			vars := map[string]Term{}
			var ps []string
			for _, p := range d.Params {
				vars[p] = Term{S: "a!" + p, Sort: SInt}
				ps = append(ps, "(a!"+p+" Int)")
			}
			body, err := ToSMT(d.Body, &Env{Vars: vars, Defs: vc.cs.Defs})
			if err != nil {
				fmt.Fprintf(&sb, "; definerec %s: %v\n", n, err)
				continue
			}
			fmt.Fprintf(&sb, "(define-fun-rec spec.%s (%s) Int %s)\n", n, strings.Join(ps, " "), body.S)
		}
	}
	sb.WriteString(pureAx)
	return sb.String()
}

// renderInstance renders one split instance.  only (if non-nil) selects
// obligation indices.  With batch, consecutive proof obligations that have
// no assumption between them are discharged by one query (the conjunction);
// a batch that is not refuted is re-run unbatched by the caller.
// skipCovers drops the return-reachability covers (sampled on large splits).
func (s *Script) renderInstance(sb *strings.Builder, instIdx int, inst []int, only map[int]bool, modelTerms []string, batch, skipCovers bool) (trivial []int) {
	startLen := sb.Len()
	sb.WriteString("(push 1)\n")
	sb.WriteString(s.Preamble)
	splitVal := map[string]int{}
	for i, sp := range s.Splits {
		splitVal[sp.Var] = inst[i]
	}
	var fd *folder
	{
		fd = &folder{env: map[string]*sx{}, structs: s.Structs}
		s.parseOnce.Do(func() {
			s.parsed = make([]*sx, len(s.Items))
			for i, it := range s.Items {
				if it.Ob != nil {
					s.parsed[i] = parseSx(it.Ob.Goal)
				} else if strings.HasPrefix(it.Text, "(define-fun") || strings.HasPrefix(it.Text, "(assert") {
					s.parsed[i] = parseSx(it.Text)
				}
			}
		})
	}
	for _, p := range s.Params {
		if v, ok := splitVal[p.Source]; ok {
			fmt.Fprintf(sb, "(define-fun %s () Int %s)\n", p.Name, IntLit(int64(v)).S)
			if fd != nil {
				fd.env[p.Name] = numSx(big.NewInt(int64(v)))
			}
		} else if p.Def != "" {
			line := fmt.Sprintf("(define-fun %s () %s %s)", p.Name, p.Sort.SMT(), p.Def)
			sb.WriteString(fd.foldLine(line, parseSx(line)))
			sb.WriteByte('\n')
		} else {
			fmt.Fprintf(sb, "(declare-const %s %s)\n", p.Name, p.Sort.SMT())
		}
	}
	obIdx := 0
	var pendIdx []int
	var pendGoals []string
	flush := func() {
		if len(pendIdx) == 0 {
			return
		}
		var ids []string
		for _, i := range pendIdx {
			ids = append(ids, fmt.Sprint(i))
		}
		fmt.Fprintf(sb, "(echo \"OB %d %s\")\n(push 1)\n", instIdx, strings.Join(ids, " "))
		if len(pendGoals) == 1 {
			fmt.Fprintf(sb, "(assert (not %s))\n", pendGoals[0])
		} else {
			fmt.Fprintf(sb, "(assert (not (and %s)))\n", strings.Join(pendGoals, " "))
		}
		if s.Tactic == "nlsat" {
			// polynomial goals over reals: purify, eliminate defined terms, expand to sums of monomials, complete NRA procedure
			sb.WriteString("(check-sat-using (then simplify purify-arith solve-eqs (! simplify :som true) qfnra-nlsat))\n")
		} else {
			sb.WriteString("(check-sat)\n")
		}
		if len(modelTerms) > 0 {
			fmt.Fprintf(sb, "(get-value (%s))\n", strings.Join(modelTerms, " "))
		}
		sb.WriteString("(pop 1)\n")
		pendIdx, pendGoals = nil, nil
	}
	for ii, it := range s.Items {
		if it.Ob == nil {
			text := it.Text
			if len(s.SplitConsts) > 0 && strings.HasPrefix(text, "(declare-const ") {
				fl := strings.Fields(text)
				if sv, ok := s.SplitConsts[fl[1]]; ok {
					if v, ok := splitVal[sv]; ok {
						text = fmt.Sprintf("(define-fun %s () Int %s)", fl[1], IntLit(int64(v)).S)
						fd.env[fl[1]] = numSx(big.NewInt(int64(v)))
					}
				}
			}
			if fd != nil {
				text = fd.foldLine(text, s.parsed[ii])
				if text == "" {
					continue
				}
			}
			if !batch || it.Cut {
				flush()
			}
			sb.WriteString(text)
			sb.WriteByte('\n')
			continue
		}
		idx := obIdx
		obIdx++
		if only != nil && !only[idx] {
			continue
		}
		goal := it.Ob.Goal
		if fd != nil && s.parsed[ii] != nil {
			g := fd.fold(s.parsed[ii])
			if g.isAtom("true") && !it.Ob.ExpectSat {
				trivial = append(trivial, idx)
				continue
			}
			goal = g.String()
		}
		if it.Ob.ExpectSat {
			if skipCovers && it.Ob.Name != "V/requires-sat" && it.Ob.Name != "V/hypotheses-sat" {
				continue
			}
			flush()
			fmt.Fprintf(sb, "(echo \"OB %d %d\")\n(push 1)\n(assert %s)\n(check-sat)\n(pop 1)\n", instIdx, idx, goal)
			continue
		}
		if !batch {
			fmt.Fprintf(sb, "; %s [%s] %s\n", it.Ob.Name, it.Ob.Pos, it.Ob.Desc)
		}
		pendIdx = append(pendIdx, idx)
		pendGoals = append(pendGoals, goal)
		if !batch {
			flush()
		}
	}
	flush()
	sb.WriteString("(pop 1)\n")
	if s.Tactic == "nlsat" {
		scalar := scalarize(sb.String()[startLen:])
		head := sb.String()[:startLen]
		sb.Reset()
		sb.WriteString(head)
		sb.WriteString(scalar)
	}
	return trivial
}

var (
	reDeclConst = regexp.MustCompile(`^\(declare-const (\S+) (.+)\)$`)
	reSelConst  = regexp.MustCompile(`\(select ([^\s()]+) (\d+)\)`)
	reFieldOf   = regexp.MustCompile(`\(([A-Za-z0-9_]+)\.([A-Za-z0-9_]+) ([^\s()]+)\)`)
)

// scalarize replaces ground projections of declared constants - (select a 2), (T.f x), nested - by fresh constants of
// the projected sort.  This is an abstraction (every model of the original script yields a model of the rewritten one),
// so `unsat` carries over; it lets solve-eqs eliminate the components of call results, which it cannot do through
// select / accessor terms.  Used only for scripts discharged with the nonlinear real tactic.
func scalarize(text string) string {
	lines := strings.Split(text, "\n")
	decl := map[string]string{}
	for _, ln := range lines {
		if m := reDeclConst.FindStringSubmatch(ln); m != nil {
			decl[m[1]] = m[2]
		}
	}
	type newc struct{ base, name, sort string }
	var created []newc
	body := strings.Join(lines, "\n")
	for round := 0; round < 8; round++ {
		changed := false
		body = reSelConst.ReplaceAllStringFunc(body, func(m string) string {
			g := reSelConst.FindStringSubmatch(m)
			srt, ok := decl[g[1]]
			if !ok || !strings.HasPrefix(srt, "(Array Int ") {
				return m
			}
			elem := strings.TrimSuffix(strings.TrimPrefix(srt, "(Array Int "), ")")
			nm := g[1] + "$" + g[2]
			if _, seen := decl[nm]; !seen {
				decl[nm] = elem
				created = append(created, newc{g[1], nm, elem})
			}
			changed = true
			return nm
		})
		body = reFieldOf.ReplaceAllStringFunc(body, func(m string) string {
			g := reFieldOf.FindStringSubmatch(m)
			if decl[g[3]] != g[1] {
				return m
			}
			fs, ok := structFieldSMT[g[1]+"."+g[2]]
			if !ok {
				return m
			}
			nm := g[3] + "$" + g[2]
			if _, seen := decl[nm]; !seen {
				decl[nm] = fs
				created = append(created, newc{g[3], nm, fs})
			}
			changed = true
			return nm
		})
		if !changed {
			break
		}
	}
	if len(created) == 0 {
		return text
	}
	out := strings.Split(body, "\n")
	for _, c := range created {
		want := "(declare-const " + c.base + " " + decl[c.base] + ")"
		for i, ln := range out {
			if ln == want {
				out = append(out[:i+1], append([]string{"(declare-const " + c.name + " " + c.sort + ")"}, out[i+1:]...)...)
				break
			}
		}
	}
	return strings.Join(out, "\n")
}

type Solver struct {
	Name string
	Cmd  []string
}

func solverCmd(name string, timeoutMs int) Solver {
	switch name {
	case "z3-new", "z3-nlsat":
		return Solver{name, []string{"z3-new", "-in", "-smt2", fmt.Sprintf("-t:%d", timeoutMs)}}
	case "z3":
		return Solver{name, []string{"z3", "-in", "-smt2", fmt.Sprintf("-t:%d", timeoutMs)}}
	case "cvc5":
		return Solver{name, []string{"cvc5", "--incremental", "--lang=smt2", fmt.Sprintf("--tlimit-per=%d", timeoutMs)}}
	}
	panic("unknown solver " + name)
}

var chunkMax = func() int {
	if v := os.Getenv("GOVC_CHUNK"); v != "" {
		var n int
		fmt.Sscanf(v, "%d", &n)
		if n > 0 {
			return n
		}
	}
	return 16
}()

type rawResult struct {
	inst   int
	ob     int
	obs    []int
	status string
	detail string
}

// runSolver feeds a script to a solver and parses OB-tagged answers.
func runSolver(sv Solver, text string, hardTimeout time.Duration) ([]rawResult, string, error) {
	ctx, cancel := context.WithTimeout(context.Background(), hardTimeout)
	defer cancel()
	cmd := exec.CommandContext(ctx, sv.Cmd[0], sv.Cmd[1:]...)
	cmd.Stdin = strings.NewReader(text)
	var out bytes.Buffer
	cmd.Stdout = &out
	cmd.Stderr = &out
	err := cmd.Run()
	_ = err // z3 exits non-zero on (error ...) lines; the output is what matters
	var res []rawResult
	var cur *rawResult
	lines := strings.Split(out.String(), "\n")
	for _, ln := range lines {
		ln = strings.TrimSpace(ln)
		if ln == "" {
			continue
		}
		ln = strings.Trim(ln, "\"")
		if strings.HasPrefix(ln, "OB ") {
			fs := strings.Fields(ln)
			var nums []int
			for _, x := range fs[1:] {
				var n int
				fmt.Sscanf(x, "%d", &n)
				nums = append(nums, n)
			}
			res = append(res, rawResult{inst: nums[0], ob: nums[1], obs: nums[1:], status: "none"})
			cur = &res[len(res)-1]
			continue
		}
		if cur == nil {
			if strings.HasPrefix(ln, "(error") {
				return res, out.String(), fmt.Errorf("solver error before first obligation: %s", ln)
			}
			continue
		}
		switch {
		case ln == "unsat" || ln == "sat" || ln == "unknown" || ln == "timeout":
			if cur.status == "none" {
				cur.status = ln
				if ln == "timeout" {
					cur.status = "unknown"
				}
			}
		case strings.HasPrefix(ln, "(error"):
			if cur.status == "none" {
				cur.status = "error"
			}
			if !strings.Contains(ln, "model is not available") {
				cur.detail += ln + "\n"
			}
		default:
			if cur.status == "sat" {
				cur.detail += ln + "\n"
			}
		}
	}
	for i := range res {
		if res[i].status == "none" {
			res[i].status = "unknown"
			res[i].detail += "no answer (solver stopped)\n"
		}
	}
	if ctx.Err() != nil {
		return res, out.String(), fmt.Errorf("hard timeout")
	}
	return res, out.String(), nil
}

type Runner struct {
	vc           *VC
	fewUndecided bool // at most a dozen obligations undecided after the first pass (flakes rather than a broken tree)
	TimeoutMs    int
	Workers      int
	Primary      string
	Fallback     []string
	Cross        bool // thorough: confirm unsat with a second solver
	Tier         string
	Sampled      []map[string]interface{}
	mu           sync.Mutex
	SolverMs     map[string]int64
	Calls        map[string]int
	failInst     map[*Script]int
}

func (r *Runner) abandoned(sc *Script) bool {
	r.mu.Lock()
	defer r.mu.Unlock()
	return r.failInst[sc] >= 24
}

func (r *Runner) noteFailures(sc *Script, n int) {
	r.mu.Lock()
	if r.failInst == nil {
		r.failInst = map[*Script]int{}
	}
	r.failInst[sc] += n
	r.mu.Unlock()
}

func (r *Runner) account(name string, d time.Duration, n int) {
	r.mu.Lock()
	r.SolverMs[name] += d.Milliseconds()
	r.Calls[name] += n
	r.mu.Unlock()
}

// Run discharges every obligation of the scripts.
func (r *Runner) Run(scripts []*Script) []*ObResult {
	header := Prelude() + r.vc.globalDecls()
	structs := map[string][]string{}
	for name, ss := range r.vc.structSorts {
		for _, fl := range ss.Fields {
			structs[name] = append(structs[name], fl.Name)
		}
	}
	axioms := r.vc.pureAxiomsByName()
	for n, ax := range MemberAxioms() {
		axioms[n] = ax
	}
	for _, sc := range scripts {
		sc.Structs = structs
		var sb strings.Builder
		var names []string
		for n := range axioms {
			names = append(names, n)
		}
		sort.Strings(names)
		for _, n := range names {
			if sc.CalledPure[n] {
				continue // the call site already assumes the contract for the actual arguments
			}
			used := false
			for _, it := range sc.Items {
				if (it.Ob != nil && strings.Contains(it.Ob.Goal, n)) || strings.Contains(it.Text, n) {
					used = true
					break
				}
			}
			if used {
				sb.WriteString(axioms[n])
			}
		}
		sc.Preamble = sb.String()
	}
	type job struct {
		sc    *Script
		insts [][]int
		base  int
		only  map[int]bool
	}
	var jobs []job
	for _, sc := range scripts {
		insts := sc.instances()
		nobs := len(sc.obligations())
		if nobs == 0 {
			continue
		}
		if r.Tier != "thorough" && sc.QuickStride > 1 && len(insts) > sc.QuickStride {
			var keep [][]int
			off := seedFromEnv() % sc.QuickStride
			for i, in := range insts {
				if i%sc.QuickStride == off || i == 0 || i == len(insts)-1 {
					keep = append(keep, in)
				}
			}
			r.Sampled = append(r.Sampled, map[string]interface{}{"function": sc.FuncName, "split_instances_checked": len(keep), "split_instances_total": len(insts), "stride": sc.QuickStride})
			insts = keep
		}
		if len(insts) == 1 && nobs > 12 {
			// one instance with many obligations: split the obligations over the workers
			groups := r.Workers
			if groups > nobs/4 {
				groups = nobs / 4
			}
			if groups < 1 {
				groups = 1
			}
			for g := 0; g < groups; g++ {
				only := map[int]bool{}
				for j := g; j < nobs; j += groups {
					only[j] = true
				}
				jobs = append(jobs, job{sc: sc, insts: insts, base: 0, only: only})
			}
			continue
		}
		// chunk instances so that every worker has something to do
		per := 1
		if len(insts) > r.Workers*4 {
			per = (len(insts) + r.Workers*4 - 1) / (r.Workers * 4)
			if per > chunkMax {
				per = chunkMax
			}
		}
		if sc.Con != nil && sc.Con.Chunk > 0 && per > sc.Con.Chunk {
			per = sc.Con.Chunk
		}
		for i := 0; i < len(insts); i += per {
			j := i + per
			if j > len(insts) {
				j = len(insts)
			}
			jobs = append(jobs, job{sc: sc, insts: insts[i:j], base: i})
		}
	}
	var results []*ObResult
	var wg sync.WaitGroup
	ch := make(chan job)
	for w := 0; w < r.Workers; w++ {
		wg.Add(1)
		go func() {
			defer wg.Done()
			for jb := range ch {
				rs := r.runJob(header, jb.sc, jb.insts, jb.base, jb.only)
				r.mu.Lock()
				results = append(results, rs...)
				r.mu.Unlock()
			}
		}()
	}
	for _, jb := range jobs {
		ch <- jb
	}
	close(ch)
	wg.Wait()
	// retry whatever the primary solver did not decide
	var retry []*ObResult
	for _, res := range results {
		if !res.OK() && !(res.Ob.ExpectSat && res.Status == "unsat") {
			retry = append(retry, res)
		}
	}
	if os.Getenv("GOVC_STATS") != "" {
		fmt.Fprintf(os.Stderr, "stats: results=%d retry=%d solverMs=%v calls=%v\n", len(results), len(retry), r.SolverMs, r.Calls)
	}
	if len(retry) > 0 {
		// bound the per-obligation effort: a few instances per obligation name
		perName := map[string]int{}
		var lim []*ObResult
		for _, res := range retry {
			k := res.Ob.Func + "/" + res.Ob.Name + "/" + res.Status
			perName[k]++
			// definite counterexamples: a few models are enough; undecided ones get the full timeout
			if (res.Status == "sat" && perName[k] <= 3) || (res.Status != "sat" && perName[k] <= 300) {
				lim = append(lim, res)
			}
		}
		retry = lim
		undecided := 0
		for _, res := range retry {
			if res.Status != "sat" && !res.Ob.ExpectSat {
				undecided++
			}
		}
		r.fewUndecided = undecided <= 12
		sem := make(chan struct{}, r.Workers)
		var wg2 sync.WaitGroup
		stillBad := map[string]int{} // per obligation name: retries that stayed undecided
		for _, res := range retry {
			name := res.Ob.Func + "/" + res.Ob.Name
			r.mu.Lock()
			giveUp := stillBad[name] >= 8
			r.mu.Unlock()
			if giveUp {
				continue // the same obligation stayed undecided in several instances: stop spending time on it
			}
			wg2.Add(1)
			sem <- struct{}{}
			go func(res *ObResult, name string) {
				defer wg2.Done()
				defer func() { <-sem }()
				r.retry(header, res)
				if !res.OK() {
					r.mu.Lock()
					stillBad[name]++
					r.mu.Unlock()
				}
			}(res, name)
		}
		wg2.Wait()
		// final serial pass: z3's strategies use time budgets internally, so under a loaded machine a query that
		// normally takes seconds can wander off; whatever is still undecided (not refuted) is asked once more, one
		// query at a time, when nothing else of this run is executing (at most six queries)
		serial := 0
		for _, res := range retry {
			if serial >= 6 || !r.fewUndecided {
				break
			}
			if res.OK() || res.Ob.ExpectSat || res.Status == "sat" {
				continue
			}
			serial++
			rr, _ := r.single(header, res, r.Primary, 2*r.TimeoutMs, false)
			if rr.status == "unsat" {
				res.Status, res.Solver, res.Detail = rr.status, r.Primary, rr.detail
			}
		}
	}
	if r.Cross {
		r.crossCheck(header, results)
	}
	sort.Slice(results, func(i, j int) bool { return results[i].FullName() < results[j].FullName() })
	return results
}

func (r *Runner) runJob(header string, sc *Script, insts [][]int, base int, only map[int]bool) []*ObResult {
	obs := sc.obligations()
	sv := solverCmd(r.Primary, r.TimeoutMs)
	ninst := len(sc.instances())
	sampleCovers := ninst > 16
	coverStep := ninst / 8
	if coverStep == 0 {
		coverStep = 1
	}
	trivial := map[[2]int]bool{}
	if r.abandoned(sc) {
		var results []*ObResult
		for _, inst := range insts {
			for _, ob := range obs {
				if ob.ExpectSat {
					continue
				}
				results = append(results, &ObResult{Ob: ob, Instance: sc.instName(inst), Solver: "none", Script: sc, InstVals: inst, Status: "skipped", Detail: "not attempted: the same function already failed in other split instances"})
			}
		}
		return results
	}
	run := func(sel []int, batch bool) (map[[2]int]rawResult, string, error, time.Duration, int) {
		to := r.TimeoutMs
		if ninst > 100 && to > 3000 && !(sc.Con != nil && sc.Con.NoBatch) {
			to = 3000 // split instances are small queries; the individual retry uses the full timeout
		}
		if batch {
			sv = solverCmd(r.Primary, to/3)
		} else {
			sv = solverCmd(r.Primary, to)
		}
		var sb strings.Builder
		sb.WriteString(header)
		for _, i := range sel {
			skip := sampleCovers && (base+i)%coverStep != 0
			for _, t := range sc.renderInstance(&sb, i, insts[i], only, nil, batch, skip) {
				trivial[[2]int{i, t}] = true
			}
		}
		if d := os.Getenv("GOVC_DUMP_JOB"); d != "" && fmt.Sprint(base) == os.Getenv("GOVC_DUMP_BASE") && (os.Getenv("GOVC_DUMP_FUNC") == "" || os.Getenv("GOVC_DUMP_FUNC") == sc.FuncName) {
			os.WriteFile(d, []byte(sb.String()), 0o644)
		}
		start := time.Now()
		hard := time.Duration(r.TimeoutMs)*time.Millisecond*time.Duration(len(obs)*len(sel)) + 30*time.Second
		if hard > 15*time.Minute {
			hard = 15 * time.Minute
		}
		raw, out, err := runSolver(sv, sb.String(), hard)
		el := time.Since(start)
		r.account(sv.Name, el, len(raw))
		got := map[[2]int]rawResult{}
		for _, rr := range raw {
			for _, o := range rr.obs {
				got[[2]int{rr.inst, o}] = rr
			}
		}
		return got, out, err, el, len(raw)
	}
	all := make([]int, len(insts))
	for i := range insts {
		all[i] = i
	}
	got, out, err, el, nraw := run(all, !(sc.Con != nil && sc.Con.NoBatch))
	// instances with an unrefuted batch are re-run one obligation at a time
	redo := map[int]bool{}
	for k, rr := range got {
		if len(rr.obs) > 1 && rr.status != "unsat" {
			redo[k[0]] = true
		}
	}
	if len(redo) > 0 {
		var sel []int
		for i := range insts {
			if redo[i] {
				sel = append(sel, i)
			}
		}
		got2, _, _, _, _ := run(sel, false)
		for k, rr := range got2 {
			got[k] = rr
		}
	}
	if len(redo) > 0 {
		r.noteFailures(sc, len(redo))
		if os.Getenv("GOVC_STATS") != "" {
			fmt.Fprintf(os.Stderr, "stats: job base=%d redo=%d of %d\n", base, len(redo), len(insts))
		}
	}
	var results []*ObResult
	for i, inst := range insts {
		skip := sampleCovers && (base+i)%coverStep != 0
		for j, ob := range obs {
			if only != nil && !only[j] {
				continue
			}
			if ob.ExpectSat && skip && ob.Name != "V/requires-sat" && ob.Name != "V/hypotheses-sat" {
				continue
			}
			res := &ObResult{Ob: ob, Instance: sc.instName(inst), Solver: sv.Name, Script: sc, InstVals: inst}
			if trivial[[2]int{i, j}] {
				res.Status = "unsat"
				res.Solver = "constant-folding"
				results = append(results, res)
				continue
			}
			if rr, ok := got[[2]int{i, j}]; ok {
				res.Status = rr.status
				res.Detail = rr.detail
			} else {
				res.Status = "unknown"
				res.Detail = "no answer from solver"
				if err != nil {
					res.Detail += ": " + err.Error()
				}
				if len(out) > 0 && nraw == 0 {
					res.Status = "error"
					res.Detail += "\n" + firstLines(out, 5)
				}
			}
			if nraw > 0 {
				res.Ms = el.Milliseconds() / int64(nraw)
			}
			results = append(results, res)
		}
	}
	return results
}

func firstLines(s string, n int) string {
	ls := strings.Split(s, "\n")
	if len(ls) > n {
		ls = ls[:n]
	}
	return strings.Join(ls, "\n")
}

func (r *Runner) single(header string, res *ObResult, solver string, timeoutMs int, withModel bool) (rawResult, error) {
	sc := res.Script
	idx := -1
	for j, ob := range sc.obligations() {
		if ob == res.Ob {
			idx = j
		}
	}
	var sb strings.Builder
	sb.WriteString(header)
	var modelTerms []string
	if withModel {
		modelTerms = sc.modelTerms()
	}
	sc.renderInstance(&sb, 0, res.InstVals, map[int]bool{idx: true}, modelTerms, false, false)
	text := sb.String()
	if solver == "z3-nlsat" {
		// polynomial goals over reals (ideal-real scripts): z3 5.1 with an explicit tactic - purify, eliminate the defined
		// terms, expand to sums of monomials, then the complete nonlinear real procedure.  Only `unsat` is accepted.
		text = strings.ReplaceAll(text, "(check-sat)\n", "(check-sat-using (then simplify purify-arith solve-eqs (! simplify :som true) qfnra-nlsat))\n")
	}
	sv := solverCmd(solver, timeoutMs)
	start := time.Now()
	raw, _, err := runSolver(sv, text, time.Duration(timeoutMs)*time.Millisecond+20*time.Second)
	r.account(sv.Name, time.Since(start), 1)
	if len(raw) == 0 {
		return rawResult{status: "unknown", detail: "no answer"}, err
	}
	return raw[0], nil
}

// modelTerms lists the terms whose values describe a counterexample.
func (s *Script) modelTerms() []string {
	var ts []string
	var proj func(term string, srt *Sort, depth int)
	proj = func(term string, srt *Sort, depth int) {
		if depth > 3 {
			return
		}
		switch srt.Kind {
		case KInt, KReal:
			ts = append(ts, term)
		case KStruct:
			for _, fl := range srt.Fields {
				proj(fmt.Sprintf("(%s.%s %s)", srt.Name, fl.Name, term), fl.Sort, depth+1)
			}
		case KArr:
			if srt.Key == nil {
				for k := 0; k < 4; k++ {
					proj(fmt.Sprintf("(select %s %d)", term, k), srt.Elem, depth+1)
				}
			}
		}
	}
	for _, p := range s.Params {
		switch p.Sort.Kind {
		case KStruct, KArr:
			proj(p.Name, p.Sort, 0)
		case KInt, KBool, KReal, KStr:
			ts = append(ts, p.Name)
		case KSeq:
			ts = append(ts, fmt.Sprintf("(seq.len %s)", p.Name))
			for k := 0; k < 4; k++ {
				ts = append(ts, fmt.Sprintf("(select (seq.el %s) %d)", p.Name, k))
			}
		}
	}
	return ts
}

func (r *Runner) retry(header string, res *ObResult) {
	if os.Getenv("GOVC_STATS") != "" {
		defer func() {
			fmt.Fprintf(os.Stderr, "retry: %s %v -> %s by %s\n", res.FullName(), res.InstVals, res.Status, res.Solver)
		}()
	}
	if res.Status == "sat" && !res.Ob.ExpectSat {
		// candidate counterexample from the primary solver: fetch the model
		mr, _ := r.single(header, res, r.Primary, r.TimeoutMs, true)
		if mr.status == "sat" {
			res.Detail = mr.detail
			return
		}
	}
	order := append([]string{r.Primary}, r.Fallback...)
	if res.Script != nil && res.Script.Ideal && !res.Ob.ExpectSat {
		order = append([]string{r.Primary, "z3-nlsat"}, r.Fallback...)
	}
	for _, solver := range order {
		rr, _ := r.single(header, res, solver, r.TimeoutMs, false)
		if solver == "z3-nlsat" && rr.status != "unsat" {
			continue
		}
		cand := &ObResult{Ob: res.Ob, Status: rr.status}
		if cand.OK() {
			res.Status, res.Solver, res.Detail = rr.status, solver, rr.detail
			return
		}
		if rr.status == "sat" && !res.Ob.ExpectSat {
			// genuine candidate counterexample: fetch the model
			mr, _ := r.single(header, res, solver, r.TimeoutMs, true)
			res.Status, res.Solver = "sat", solver
			res.Detail = mr.detail
			return
		}
		if res.Detail == "" {
			res.Detail = rr.detail
		}
	}
	// last resort against load-induced time-outs: the primary solver once more with four times the budget
	// (only when few obligations are undecided: many undecided ones mean a broken tree, not a loaded machine)
	if !res.Ob.ExpectSat && r.fewUndecided {
		rr, _ := r.single(header, res, r.Primary, 4*r.TimeoutMs, false)
		if rr.status == "unsat" {
			res.Status, res.Solver, res.Detail = rr.status, r.Primary, rr.detail
		}
	}
}

func (r *Runner) crossCheck(header string, results []*ObResult) {
	second := "z3"
	if r.Primary == "z3" {
		second = "z3-new"
	}
	sem := make(chan struct{}, r.Workers)
	var wg sync.WaitGroup
	// cross-check one instance per obligation name, at most 400 per run and 10 s each, to bound cost (the old
	// z3 is much slower than the primary on some goals; a time-out of the second solver is not a disagreement)
	seen := map[string]int{}
	total := 0
	crossTimeout := r.TimeoutMs
	if crossTimeout > 10000 {
		crossTimeout = 10000
	}
	for _, res := range results {
		if res.Status != "unsat" || res.Ob.ExpectSat || res.Solver == "constant-folding" {
			continue
		}
		key := res.Ob.Func + "/" + res.Ob.Name
		seen[key]++
		if seen[key] > 1 || total >= 400 {
			continue
		}
		total++
		wg.Add(1)
		sem <- struct{}{}
		go func(res *ObResult) {
			defer wg.Done()
			defer func() { <-sem }()
			rr, _ := r.single(header, res, second, crossTimeout, false)
			if rr.status == "unsat" {
				res.Cross = second
			} else if rr.status == "sat" {
				// the old z3 has answered "sat" wrongly before (quantified and floating-point goals): a third
				// solver breaks the tie; only two solvers saying "sat" against the primary count as a disagreement
				third, _ := r.single(header, res, "cvc5", crossTimeout, false)
				if third.status == "sat" {
					res.Cross = second + "+cvc5:DISAGREES"
				} else {
					res.Cross = second + ":sat-unconfirmed(cvc5:" + third.status + ")"
				}
			}
		}(res)
	}
	wg.Wait()
}
