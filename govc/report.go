package main

import (
	"encoding/json"
	"fmt"
	"os"
	"path/filepath"
	"sort"
	"strconv"
	"strings"
	"time"
)

type Report struct {
	VC         *VC
	Prop       string
	Tier       string
	Verif      string
	Sel        *Selected
	Results    []*ObResult
	Runner     *Runner
	Start      time.Time
	LoadT      time.Duration
	Verbose    bool
	NoEvidence bool
	Extra      *ExtraChecks
}

type Violation struct {
	Obligation string         `json:"obligation"`
	Kind       string         `json:"kind"`
	Func       string         `json:"function"`
	Pos        string         `json:"position,omitempty"`
	Clause     string         `json:"clause,omitempty"`
	Status     string         `json:"solver_status"`
	Solver     string         `json:"solver,omitempty"`
	Detail     string         `json:"solver_output,omitempty"`
	Replay     *ReplayOutcome `json:"replay,omitempty"`
	Reason     string         `json:"reason,omitempty"`
	Count      int            `json:"instances_failing,omitempty"`
	Instances  []string       `json:"sample_instances,omitempty"`
}

func seedFromEnv() int {
	if s := os.Getenv("VERIF_SEED"); s != "" {
		if n, err := strconv.Atoi(s); err == nil {
			return n
		}
	}
	return 1
}

func (rep *Report) Finish() int {
	byKind := map[string]int{}
	bySolver := map[string]int{}
	okCount := 0
	total := 0
	idealCount := 0
	crossed := 0
	crossUnconfirmed := []string{}
	var failed []*ObResult
	covers, coversSat := 0, 0
	skipped := 0
	for _, r := range rep.Results {
		if r.Ob.ExpectSat {
			covers++
			if r.Status == "sat" {
				coversSat++
			}
			if !r.OK() {
				failed = append(failed, r)
			}
			continue
		}
		if r.Status == "skipped" {
			skipped++
			continue
		}
		total++
		byKind[r.Ob.Kind]++
		if r.OK() {
			okCount++
			bySolver[r.Solver]++
			if r.Ob.Ideal {
				idealCount++
			}
			if r.Cross != "" && !strings.Contains(r.Cross, "DISAGREES") && !strings.Contains(r.Cross, "unconfirmed") {
				crossed++
			}
			if strings.Contains(r.Cross, "unconfirmed") {
				crossUnconfirmed = append(crossUnconfirmed, r.FullName()+" "+r.Cross)
			}
		} else {
			failed = append(failed, r)
		}
		if strings.Contains(r.Cross, "DISAGREES") {
			failed = append(failed, r)
		}
	}
	retReachable := map[string]bool{}
	for _, r := range rep.Results {
		if r.Ob.ExpectSat && strings.HasSuffix(r.Ob.Name, "-reachable") && (r.Status == "sat" || r.Status == "unknown") {
			retReachable[r.Ob.Func] = true
		}
	}
	// group failures by obligation (across split instances)
	groups := map[string][]*ObResult{}
	var order []string
	for _, r := range failed {
		k := r.Ob.Func + "/" + r.Ob.Name
		if _, ok := groups[k]; !ok {
			order = append(order, k)
		}
		groups[k] = append(groups[k], r)
	}
	sort.Strings(order)
	var violations []*Violation
	for _, k := range order {
		rs := groups[k]
		// prefer an instance with a model
		best := rs[0]
		for _, r := range rs {
			hasModel := strings.Contains(r.Detail, "((")
			bestModel := strings.Contains(best.Detail, "((")
			if r.Status == "sat" && (best.Status != "sat" || (hasModel && !bestModel)) {
				best = r
			}
		}
		v := &Violation{Obligation: k, Kind: best.Ob.Kind, Func: best.Ob.Func, Pos: best.Ob.Pos, Clause: best.Ob.Desc, Status: best.Status, Solver: best.Solver, Detail: best.Detail, Count: len(rs)}
		if best.Ob.ExpectSat {
			v.Reason = "vacuity guard: " + best.Ob.Desc + " is unsatisfiable"
			// an individual return may be unreachable under a contract case; it is a
			// vacuity failure only if no return of the function is reachable at all
			if strings.HasSuffix(best.Ob.Name, "-reachable") {
				if retReachable[best.Ob.Func] {
					continue
				}
			} else if best.Ob.Name != "V/requires-sat" && len(rs) < rep.instancesOf(best.Script) {
				continue
			}
		}
		for i, r := range rs {
			if i < 5 {
				v.Instances = append(v.Instances, r.Instance)
			}
		}
		violations = append(violations, v)
		rep.attachReplay(v, rs, best)
	}
	for _, tf := range rep.Sel.Failures {
		violations = append(violations, &Violation{Obligation: tf.Func + "/translation", Kind: "T", Func: tf.Func, Status: "undischarged", Reason: tf.Err})
		total++
	}
	// extra (bounded / frame) checks
	bounded := []map[string]interface{}{}
	if rep.Extra != nil {
		for _, ev := range rep.Extra.Violations {
			violations = append(violations, ev)
		}
		bounded = rep.Extra.Bounded
	}
	// known findings
	kf := LoadKnownFindings(filepath.Join(rep.Verif, "known_findings.txt"))
	var remaining []*Violation
	knownSeen := []string{}
	for _, v := range violations {
		if f := kf.Match(rep.Prop, v); f != nil {
			line := fmt.Sprintf("KNOWN-FINDING: property=%s %s %s", rep.Prop, f.ID, f.Desc)
			fmt.Println(line)
			knownSeen = append(knownSeen, f.ID+" "+v.Obligation)
			continue
		}
		remaining = append(remaining, v)
	}
	if !rep.NoEvidence || true {
		knownSeen = append(knownSeen, rep.witnessFindings(kf)...)
	}
	// trusted base / assumptions
	trusted := map[string]bool{}
	for _, sc := range rep.Sel.Scripts {
		for k := range sc.Trusted {
			trusted[k] = true
		}
	}
	for _, c := range rep.VC.cs.Funcs {
		if c.Trusted && hasProp(c.Props, rep.Prop) {
			trusted["assumed contract: "+c.Name] = true
		}
	}
	base := []string{
		"SMT solvers z3 5.1.0 (primary), z3 4.8.12, cvc5 1.0.3",
		"govc VC generator (validated by the must-fail self-test corpus)",
		"go/ssa (x/tools v0.29.0) represents the compiled program; GOARCH=amd64",
	}
	assumptions := []string{
		"integers are mathematical with an overflow obligation (kind O) on every arithmetic instruction; functions marked nooverflow prove no-panic and error behaviour over mathematical integers only",
		"termination is not verified",
	}
	assumptions = append(assumptions, sortedKeys(trusted)...)
	if idealCount > 0 {
		assumptions = append(assumptions, fmt.Sprintf("%d obligations proved with float64 arithmetic treated as real arithmetic (float ideal)", idealCount))
	}
	if rep.Extra != nil {
		assumptions = append(assumptions, rep.Extra.Assumptions...)
	}
	// samples
	var samples []map[string]interface{}
	seenFunc := map[string]int{}
	for _, r := range rep.Results {
		if seenFunc[r.Ob.Func+r.Ob.Kind] >= 1 || len(samples) >= 24 {
			continue
		}
		seenFunc[r.Ob.Func+r.Ob.Kind]++
		samples = append(samples, map[string]interface{}{
			"obligation": r.FullName(), "kind": r.Ob.Kind, "position": r.Ob.Pos, "clause": r.Ob.Desc,
			"result": r.Status, "solver": r.Solver, "smt_goal_bytes": len(r.Ob.Goal),
		})
	}
	if rep.Extra != nil {
		samples = append(samples, rep.Extra.Samples...)
		total += rep.Extra.Obligations
		okCount += rep.Extra.Discharged
		for k, v := range rep.Extra.ByKind {
			byKind[k] += v
		}
	}
	wall := time.Since(rep.Start).Seconds()
	solverMs := map[string]int64{}
	for k, v := range rep.Runner.SolverMs {
		solverMs[k] = v
	}
	ev := map[string]interface{}{
		"property_id": rep.Prop,
		"tier":        rep.Tier,
		"seed":        seedFromEnv(),
		"level":       levelOf(rep.Verif, rep.Prop),
		"coverage": map[string]interface{}{
			"obligations":                              total,
			"discharged":                               okCount,
			"checker_cmd":                              fmt.Sprintf("/verif/check %s %s", rep.Prop, rep.Tier),
			"trusted_base":                             base,
			"functions_under_contract":                 rep.Sel.Funcs,
			"obligations_by_kind":                      byKind,
			"discharged_by_solver":                     bySolver,
			"obligations_not_attempted_after_failure":  skipped,
			"quick_tier_sampled_case_splits":           rep.Runner.Sampled,
			"deferred_to_thorough_tier":                rep.Sel.Deferred,
			"obligations_ideal":                        idealCount,
			"vacuity_covers_checked":                   covers,
			"vacuity_covers_satisfied":                 coversSat,
			"second_solver_sat_not_confirmed_by_third": crossUnconfirmed,
			"cross_checked_by_second_solver":           crossed,
			"solver_cpu_ms":                            solverMs,
			"load_ssa_s":                               rep.LoadT.Seconds(),
			"bounded_checks":                           bounded,
			"samples":                                  samples,
			"known_findings_seen":                      knownSeen,
			"explanation":                              explanationOf(rep.Prop),
			"kinds_legend":                             "P postcondition, R callee precondition, I0/I1 invariant establishment/preservation, S no-panic safety, O integer overflow, X float side condition, L lemma, V vacuity guard (expected satisfiable), M string-model bound, F frame, D order-determinism",
		},
		"assumptions": assumptions,
		"wall_s":      wall,
		"violations":  len(remaining),
	}
	os.MkdirAll(filepath.Join(rep.Verif, "evidence"), 0o755)
	if rep.Prop != "" && rep.Prop != "all" && !rep.NoEvidence {
		data, _ := json.MarshalIndent(ev, "", " ")
		os.WriteFile(filepath.Join(rep.Verif, "evidence", rep.Prop+".json"), data, 0o644)
	}
	fmt.Printf("property=%s tier=%s functions=%d obligations=%d discharged=%d failed=%d known=%d wall=%.1fs\n", rep.Prop, rep.Tier, len(rep.Sel.Funcs), total, okCount, len(remaining), len(knownSeen), wall)
	if rep.Verbose {
		for k, v := range byKind {
			fmt.Printf("  kind %s: %d\n", k, v)
		}
	}
	if total == 0 {
		fmt.Printf("VIOLATION property=%s replay=%s no-failing-input-found\n", rep.Prop, rep.writeReplay(&Violation{Obligation: "vacuity/no-obligations", Reason: "the generator produced no obligations for this property"}))
		return 1
	}
	for _, v := range remaining {
		path := rep.writeReplay(v)
		suffix := ""
		if v.Replay == nil || !v.Replay.Confirmed {
			suffix = " no-failing-input-found"
		}
		fmt.Printf("VIOLATION property=%s replay=%s%s\n", rep.Prop, path, suffix)
		fmt.Printf("  obligation %s [%s] %s: %s (%s) %s\n", v.Obligation, v.Kind, v.Pos, v.Clause, v.Status, v.Reason)
		if rep.Verbose && v.Detail != "" {
			fmt.Println("  " + strings.ReplaceAll(strings.TrimSpace(v.Detail), "\n", "\n  "))
		}
	}
	if len(remaining) > 0 {
		return 1
	}
	return 0
}

func explanationOf(prop string) string {
	if prop == "C19" {
		return "Contracts cannot quantify over schedules. What is decided is the frame statement that makes every interleaving equivalent to some sequential order: no function of the library (and no dependency code reachable from it) writes memory it did not allocate or receive as the receiver of a declared mutator, and no package-level variable is written outside init. Each store site is an F obligation discharged by an SSA provenance analysis."
	}
	return "Obligations generated from the current working tree by weakest-precondition calculation over go/ssa and discharged by SMT solvers; see DESIGN.md."
}

// levelOf: the category claimed for the property in MANIFEST.json (proof unless stated otherwise).
func levelOf(verif, prop string) string {
	data, err := os.ReadFile(filepath.Join(verif, "MANIFEST.json"))
	if err == nil {
		var m struct {
			Checks []struct {
				PropertyID   string `json:"property_id"`
				LevelClaimed struct {
					Category string `json:"category"`
				} `json:"level_claimed"`
			} `json:"checks"`
		}
		if json.Unmarshal(data, &m) == nil {
			for _, c := range m.Checks {
				if c.PropertyID == prop && c.LevelClaimed.Category != "" {
					return c.LevelClaimed.Category
				}
			}
		}
	}
	if prop == "C19" {
		return "other"
	}
	return "proof"
}

func (rep *Report) instancesOf(sc *Script) int {
	if sc == nil {
		return 1
	}
	return len(sc.instances())
}

func (rep *Report) writeReplay(v *Violation) string {
	dir := filepath.Join(rep.Verif, "replays", rep.Prop)
	os.MkdirAll(dir, 0o755)
	name := strings.Map(func(r rune) rune {
		if r == '/' || r == ' ' || r == '*' || r == '(' || r == ')' || r == '@' || r == '=' || r == ',' || r == '[' || r == ']' {
			return '_'
		}
		return r
	}, v.Obligation)
	path := filepath.Join(dir, name+".json")
	data, _ := json.MarshalIndent(map[string]interface{}{"property": rep.Prop, "violation": v}, "", " ")
	os.WriteFile(path, data, 0o644)
	return path
}
