package main

import (
	"encoding/json"
	"fmt"
	"go/types"
	"math"
	"math/big"
	"math/rand"
	"os"
	"os/exec"
	"path/filepath"
	"strings"
	"time"

	"golang.org/x/tools/go/ssa"
)

// Replay of solver counterexamples against the real code: the model's
// arguments are written into an in-package test that calls the real function;
// the test is injected with `go test -overlay` (nothing is written into the
// repository); the contract clause is then evaluated on the observed results
// by the concrete evaluator (eval.go).

type ReplayInput struct {
	Func    string            `json:"func"` // pkgdir:FuncKey
	Args    []string          `json:"args"` // Go expressions
	ArgVals map[string]string `json:"arg_values"`
}

// modelValues parses a (get-value ...) answer into name -> s-expression.
func modelValues(detail string) map[string]*sx {
	out := map[string]*sx{}
	i := strings.Index(detail, "((")
	if i < 0 {
		return out
	}
	x := parseSx(detail[i:])
	if x == nil {
		return out
	}
	for _, pair := range x.list {
		if len(pair.list) == 2 {
			out[pair.list[0].String()] = pair.list[1]
		}
	}
	return out
}

func sxInt(x *sx) (*big.Int, bool) {
	if n, ok := x.num(); ok {
		return n, true
	}
	return nil, false
}

func sxRat(x *sx) (*big.Rat, bool) {
	if x.list == nil {
		r, ok := new(big.Rat).SetString(x.atom)
		return r, ok
	}
	if len(x.list) == 2 && x.list[0].isAtom("-") {
		r, ok := sxRat(x.list[1])
		if !ok {
			return nil, false
		}
		return r.Neg(r), true
	}
	if len(x.list) == 3 && x.list[0].isAtom("/") {
		a, ok1 := sxRat(x.list[1])
		b, ok2 := sxRat(x.list[2])
		if !ok1 || !ok2 || b.Sign() == 0 {
			return nil, false
		}
		return a.Quo(a, b), true
	}
	return nil, false
}

func sxAtom(x *sx) (string, bool) {
	if x.list == nil {
		switch x.atom {
		case "a.empty":
			return "", true
		case "a.none":
			return "", false
		}
		return "", false
	}
	if len(x.list) < 2 || x.list[0].list != nil {
		return "", false
	}
	switch x.list[0].atom {
	case "a.num":
		n, ok := sxInt(x.list[1])
		if !ok {
			return "", false
		}
		return n.String(), true
	case "a.alt":
		n, ok := sxInt(x.list[1])
		if !ok {
			return "", false
		}
		if n.Sign() >= 0 {
			return "+" + n.String(), true
		}
		return "-0" + new(big.Int).Neg(n).String(), true
	case "a.junk":
		n, ok := sxInt(x.list[1])
		if !ok {
			return "", false
		}
		if n.Sign() == 0 {
			return "", true
		}
		return "x" + n.String(), true
	}
	return "", false
}

func sxStr(x *sx) (string, bool) {
	// (mkstr nf f0 .. f5 rest)
	if x.list == nil || len(x.list) != 9 || !x.list[0].isAtom("mkstr") {
		return "", false
	}
	n, ok := sxInt(x.list[1])
	if !ok || !n.IsInt64() || n.Int64() < 1 || n.Int64() > 12 {
		return "", false
	}
	var fs []string
	for i := 0; i < int(n.Int64()); i++ {
		if i < 6 {
			a, ok := sxAtom(x.list[2+i])
			if !ok {
				return "", false
			}
			fs = append(fs, a)
		} else {
			fs = append(fs, "0")
		}
	}
	return strings.Join(fs, "/"), true
}

type replayArg struct {
	goExpr string
	val    Value
	shown  string
}

func (rep *Report) modelArg(p *ssa.Parameter, name string, vals map[string]*sx) (replayArg, bool) {
	t := p.Type()
	if x, ok := vals[name]; ok {
		switch u := t.Underlying().(type) {
		case *types.Basic:
			switch {
			case u.Info()&types.IsInteger != 0:
				n, ok := sxInt(x)
				if !ok {
					return replayArg{}, false
				}
				return replayArg{goExpr: fmt.Sprintf("%s(%s)", types.TypeString(t, qualifierShort), n.String()), val: n, shown: n.String()}, true
			case u.Info()&types.IsFloat != 0:
				r, ok := sxRat(x)
				if !ok {
					return replayArg{}, false
				}
				fl, _ := r.Float64()
				exact := new(big.Rat)
				exact.SetFloat64(fl)
				return replayArg{goExpr: fmt.Sprintf("math.Float64frombits(0x%x)", math.Float64bits(fl)), val: exact, shown: fmt.Sprintf("%v", fl)}, true
			case u.Info()&types.IsString != 0:
				s, ok := sxStr(x)
				if !ok {
					return replayArg{}, false
				}
				return replayArg{goExpr: fmt.Sprintf("%q", s), val: s, shown: fmt.Sprintf("%q", s)}, true
			case u.Info()&types.IsBoolean != 0:
				b := x.isAtom("true")
				return replayArg{goExpr: fmt.Sprint(b), val: b, shown: fmt.Sprint(b)}, true
			}
		}
	}
	if sl, ok := t.Underlying().(*types.Slice); ok {
		lx, ok := vals[fmt.Sprintf("(seq.len %s)", name)]
		if !ok {
			return replayArg{}, false
		}
		n, ok := sxInt(lx)
		if !ok || !n.IsInt64() || n.Int64() < 0 || n.Int64() > 4 {
			return replayArg{}, false
		}
		var elems []string
		var vs []Value
		for k := 0; k < int(n.Int64()); k++ {
			ex, ok := vals[fmt.Sprintf("(select (seq.el %s) %d)", name, k)]
			if !ok {
				return replayArg{}, false
			}
			switch eu := sl.Elem().Underlying().(type) {
			case *types.Basic:
				if eu.Info()&types.IsString != 0 {
					s, ok := sxStr(ex)
					if !ok {
						return replayArg{}, false
					}
					elems = append(elems, fmt.Sprintf("%q", s))
					vs = append(vs, s)
				} else if eu.Info()&types.IsInteger != 0 {
					m, ok := sxInt(ex)
					if !ok {
						return replayArg{}, false
					}
					elems = append(elems, m.String())
					vs = append(vs, m)
				} else {
					return replayArg{}, false
				}
			default:
				return replayArg{}, false
			}
		}
		lit := fmt.Sprintf("%s{%s}", types.TypeString(t, qualifierShort), strings.Join(elems, ", "))
		return replayArg{goExpr: lit, val: vs, shown: lit}, true
	}
	if a, ok := rep.compositeArg(p.Parent().Pkg.Pkg, t, name, vals); ok {
		return a, true
	}
	return replayArg{}, false
}

// compositeArg rebuilds a value struct / fixed-size array argument (floats and integers at the leaves, types of the
// function's own package) from the model values of its projections.
func (rep *Report) compositeArg(pkg *types.Package, t types.Type, term string, vals map[string]*sx) (replayArg, bool) {
	tn := types.TypeString(t, types.RelativeTo(pkg))
	if strings.Contains(tn, ".") {
		return replayArg{}, false // a type of another package: the in-package replay test would need an import
	}
	switch u := t.Underlying().(type) {
	case *types.Basic:
		x, ok := vals[term]
		if !ok {
			return replayArg{}, false
		}
		switch {
		case u.Info()&types.IsFloat != 0:
			r, ok := sxRat(x)
			if !ok {
				return replayArg{}, false
			}
			fl, _ := r.Float64()
			exact := new(big.Rat)
			exact.SetFloat64(fl)
			return replayArg{goExpr: fmt.Sprintf("math.Float64frombits(0x%x)", math.Float64bits(fl)), val: exact, shown: fmt.Sprintf("%v", fl)}, true
		case u.Info()&types.IsInteger != 0:
			n, ok := sxInt(x)
			if !ok {
				return replayArg{}, false
			}
			return replayArg{goExpr: fmt.Sprintf("%s(%s)", tn, n.String()), val: n, shown: n.String()}, true
		}
		return replayArg{}, false
	case *types.Struct:
		ss := rep.VC.structSortOf(t, u)
		m := map[string]Value{}
		var parts, shown []string
		for i := 0; i < u.NumFields(); i++ {
			a, ok := rep.compositeArg(pkg, u.Field(i).Type(), fmt.Sprintf("(%s.%s %s)", ss.Name, u.Field(i).Name(), term), vals)
			if !ok {
				return replayArg{}, false
			}
			m[u.Field(i).Name()] = a.val
			parts = append(parts, u.Field(i).Name()+": "+a.goExpr)
			shown = append(shown, u.Field(i).Name()+":"+a.shown)
		}
		return replayArg{goExpr: tn + "{" + strings.Join(parts, ", ") + "}", val: m, shown: tn + "{" + strings.Join(shown, " ") + "}"}, true
	case *types.Array:
		if u.Len() > 4 {
			return replayArg{}, false
		}
		var vs []Value
		var parts, shown []string
		for i := int64(0); i < u.Len(); i++ {
			a, ok := rep.compositeArg(pkg, u.Elem(), fmt.Sprintf("(select %s %d)", term, i), vals)
			if !ok {
				return replayArg{}, false
			}
			vs = append(vs, a.val)
			parts = append(parts, a.goExpr)
			shown = append(shown, a.shown)
		}
		return replayArg{goExpr: tn + "{" + strings.Join(parts, ", ") + "}", val: vs, shown: "[" + strings.Join(shown, " ") + "]"}, true
	}
	return replayArg{}, false
}

func qualifierShort(p *types.Package) string { return p.Name() }

// runReal calls the real function with the given Go argument expressions.
type RealResult struct {
	Panicked bool
	Panic    string
	Results  []Value
	Raw      string
	Test     string
	Err      string
}

func (vc *VC) runReal(fn *ssa.Function, argExprs []string) *RealResult {
	rs := vc.runRealCases(fn, [][]string{argExprs})
	return rs[0]
}

// runRealCases calls the real function once per argument tuple, in one test binary.
func (vc *VC) runRealCases(fn *ssa.Function, cases [][]string) []*RealResult {
	out := make([]*RealResult, len(cases))
	for i := range out {
		out[i] = &RealResult{}
	}
	fail := func(msg string) []*RealResult {
		for _, r := range out {
			r.Err = msg
		}
		return out
	}
	res := out[0]
	dir, ok := vc.dirOf(fn)
	if !ok {
		return fail("not replayable: external function")
	}
	isMethod := fn.Signature.Recv() != nil
	if isMethod {
		if _, ptr := fn.Signature.Recv().Type().(*types.Pointer); ptr {
			return fail("not replayable: method with pointer receiver")
		}
	}
	pkgName := fn.Pkg.Pkg.Name()
	name := fn.Name()
	if i := strings.Index(name, "["); i >= 0 {
		name = name[:i] // generic instance: let Go infer
	}
	rs := fn.Signature.Results()
	var lhs []string
	var prints []string
	imports := map[string]bool{"fmt": true, "testing": true}
	needDump := false
	for i := 0; i < rs.Len(); i++ {
		v := fmt.Sprintf("r%d", i)
		lhs = append(lhs, v)
		t := rs.At(i).Type()
		switch {
		case isErrorType(t):
			prints = append(prints, fmt.Sprintf("fmt.Printf(\"GOVC-R %d err %%v\\n\", %s != nil)", i, v))
		case isInteger(t):
			prints = append(prints, fmt.Sprintf("fmt.Printf(\"GOVC-R %d int %%d\\n\", %s)", i, v))
		case isFloat(t):
			imports["math"] = true
			prints = append(prints, fmt.Sprintf("fmt.Printf(\"GOVC-R %d float %%d\\n\", math.Float64bits(float64(%s)))", i, v))
		default:
			switch u := t.Underlying().(type) {
			case *types.Basic:
				if u.Info()&types.IsString != 0 {
					prints = append(prints, fmt.Sprintf("fmt.Printf(\"GOVC-R %d str %%q\\n\", %s)", i, v))
				} else if u.Info()&types.IsBoolean != 0 {
					prints = append(prints, fmt.Sprintf("fmt.Printf(\"GOVC-R %d bool %%v\\n\", %s)", i, v))
				} else {
					prints = append(prints, fmt.Sprintf("_ = %s; fmt.Printf(\"GOVC-R %d other\\n\")", v, i))
				}
			case *types.Slice:
				eb, isb := u.Elem().Underlying().(*types.Basic)
				if isb && (eb.Info()&types.IsString != 0 || eb.Info()&types.IsInteger != 0) {
					imports["encoding/json"] = true
					prints = append(prints, fmt.Sprintf("{ b, _ := json.Marshal(%s); fmt.Printf(\"GOVC-R %d list %%s\\n\", b) }", v, i))
				} else {
					prints = append(prints, fmt.Sprintf("_ = %s; fmt.Printf(\"GOVC-R %d other\\n\")", v, i))
				}
			case *types.Struct, *types.Array:
				imports["reflect"] = true
				imports["math"] = true
				imports["strings"] = true
				needDump = true
				prints = append(prints, fmt.Sprintf("fmt.Printf(\"GOVC-R %d json %%s\\n\", govcDump(reflect.ValueOf(%s)))", i, v))
			default:
				prints = append(prints, fmt.Sprintf("_ = %s; fmt.Printf(\"GOVC-R %d other\\n\")", v, i))
			}
		}
	}
	for _, argExprs := range cases {
		for _, a := range argExprs {
			if strings.Contains(a, "math.") {
				imports["math"] = true
			}
		}
	}
	var sb strings.Builder
	fmt.Fprintf(&sb, "package %s\n\nimport (\n", pkgName)
	for imp := range imports {
		fmt.Fprintf(&sb, "\t%q\n", imp)
	}
	sb.WriteString(")\n\nfunc TestGovcReplay(t *testing.T) {\n")
	for ci, argExprs := range cases {
		fmt.Fprintf(&sb, "\tfunc() {\n\t\tfmt.Println(\"GOVC-CASE %d\")\n", ci)
		sb.WriteString("\t\tdefer func() {\n\t\t\tif r := recover(); r != nil {\n\t\t\t\tfmt.Printf(\"GOVC-PANIC %v\\n\", r)\n\t\t\t}\n\t\t}()\n")
		call := fmt.Sprintf("%s(%s)", name, strings.Join(argExprs, ", "))
		if isMethod && len(argExprs) > 0 {
			call = fmt.Sprintf("(%s).%s(%s)", argExprs[0], name, strings.Join(argExprs[1:], ", "))
		}
		if len(lhs) > 0 {
			fmt.Fprintf(&sb, "\t\t%s := %s\n", strings.Join(lhs, ", "), call)
		} else {
			fmt.Fprintf(&sb, "\t\t%s\n", call)
		}
		for _, p := range prints {
			fmt.Fprintf(&sb, "\t\t%s\n", p)
		}
		sb.WriteString("\t\tfmt.Println(\"GOVC-DONE\")\n\t}()\n")
	}
	sb.WriteString("}\n")
	if needDump {
		sb.WriteString(govcDumpSrc)
	}
	testSrc := sb.String()
	if len(cases) == 1 {
		res.Test = testSrc
	}
	tmp, err := os.MkdirTemp("", "govc-replay")
	if err != nil {
		return fail(err.Error())
	}
	defer os.RemoveAll(tmp)
	testFile := filepath.Join(tmp, "zz_govc_replay_test.go")
	os.WriteFile(testFile, []byte(testSrc), 0o644)
	target := filepath.Join(vc.repo, dir, "zz_govc_replay_test.go")
	ov, _ := json.Marshal(map[string]interface{}{"Replace": map[string]string{target: testFile}})
	ovFile := filepath.Join(tmp, "overlay.json")
	os.WriteFile(ovFile, ov, 0o644)
	cmd := exec.Command("go", "test", "-tags=verif", "-overlay", ovFile, "-vet=off", "-v", "-count=1", "-timeout", "60s", "-run", "^TestGovcReplay$", "./"+dir)
	cmd.Dir = vc.repo
	cmd.Env = append(os.Environ(), "GOFLAGS=-mod=mod", "GOPROXY=off", "GOSUMDB=off", "GOTOOLCHAIN=local", "GOCACHE="+goCacheDir())
	done := make(chan struct{})
	var outBytes []byte
	go func() {
		outBytes, _ = cmd.CombinedOutput()
		close(done)
	}()
	select {
	case <-done:
	case <-time.After(120 * time.Second):
		if cmd.Process != nil {
			cmd.Process.Kill()
		}
		return fail("replay timed out")
	}
	raw := string(outBytes)
	for _, r := range out {
		r.Results = make([]Value, rs.Len())
	}
	done2 := make([]bool, len(cases))
	res = nil
	cur := -1
	for _, ln := range strings.Split(raw, "\n") {
		if strings.HasPrefix(ln, "GOVC-CASE ") {
			fmt.Sscanf(ln, "GOVC-CASE %d", &cur)
			if cur >= 0 && cur < len(out) {
				res = out[cur]
			}
			continue
		}
		if res == nil {
			continue
		}
		sawDone := false
		_ = sawDone
		switch {
		case strings.HasPrefix(ln, "GOVC-PANIC "):
			res.Panicked = true
			res.Panic = strings.TrimPrefix(ln, "GOVC-PANIC ")
		case strings.HasPrefix(ln, "GOVC-DONE"):
			done2[cur] = true
		case strings.HasPrefix(ln, "GOVC-R "):
			f := strings.SplitN(ln, " ", 4)
			var idx int
			fmt.Sscanf(f[1], "%d", &idx)
			if idx < 0 || idx >= len(res.Results) {
				continue
			}
			payload := ""
			if len(f) > 3 {
				payload = f[3]
			}
			switch f[2] {
			case "err", "bool":
				res.Results[idx] = payload == "true"
			case "int":
				n, _ := new(big.Int).SetString(payload, 10)
				res.Results[idx] = n
			case "float":
				var bits uint64
				fmt.Sscanf(payload, "%d", &bits)
				r := new(big.Rat)
				fl := math.Float64frombits(bits)
				if !math.IsNaN(fl) && !math.IsInf(fl, 0) {
					r.SetFloat64(fl)
					res.Results[idx] = r
				}
			case "str":
				var s string
				fmt.Sscanf(payload, "%q", &s)
				res.Results[idx] = s
			case "json":
				var rawv interface{}
				dec := json.NewDecoder(strings.NewReader(payload))
				dec.UseNumber()
				if err := dec.Decode(&rawv); err == nil {
					res.Results[idx] = dumpToValue(rawv)
				}
			case "list":
				var raw []interface{}
				dec := json.NewDecoder(strings.NewReader(payload))
				dec.UseNumber()
				if err := dec.Decode(&raw); err == nil {
					vs := []Value{}
					for _, e := range raw {
						switch ev := e.(type) {
						case string:
							vs = append(vs, ev)
						case json.Number:
							n, _ := new(big.Int).SetString(ev.String(), 10)
							vs = append(vs, n)
						}
					}
					res.Results[idx] = vs
				}
			}
		}
	}
	for i, r := range out {
		if len(cases) == 1 {
			r.Raw = raw
		}
		if !done2[i] && !r.Panicked {
			r.Err = "replay did not complete: " + firstLines(raw, 12)
		}
	}
	return out
}

func goCacheDir() string {
	if d := os.Getenv("GOCACHE"); d != "" {
		return d
	}
	home, _ := os.UserHomeDir()
	return filepath.Join(home, ".cache", "go-build")
}

// attachReplay tries to turn a solver model into a confirmed failing input.
func (rep *Report) attachReplay(v *Violation, rs []*ObResult, best *ObResult) {
	if best.Script == nil || best.Script.Con == nil || best.Ob.ExpectSat {
		return
	}
	defer func() {
		if v.Replay == nil || !v.Replay.Confirmed {
			rep.corpusReplay(v, best)
		}
	}()
	if best.Status != "sat" {
		return
	}
	sc := best.Script
	fn := rep.funcOfContract(sc.Con)
	if fn == nil {
		return
	}
	vals := modelValues(best.Detail)
	splitVal := map[string]int{}
	for i, sp := range sc.Splits {
		if i < len(best.InstVals) {
			splitVal[sp.Var] = best.InstVals[i]
		}
	}
	var argExprs []string
	envVars := map[string]Value{}
	shown := map[string]string{}
	for _, p := range fn.Params {
		if sv, ok := splitVal[p.Name()]; ok {
			argExprs = append(argExprs, fmt.Sprintf("%s(%d)", types.TypeString(p.Type(), qualifierShort), sv))
			envVars[p.Name()] = big.NewInt(int64(sv))
			shown[p.Name()] = fmt.Sprint(sv)
			continue
		}
		a, ok := rep.modelArg(p, "p!"+p.Name(), vals)
		if !ok {
			v.Replay = &ReplayOutcome{Confirmed: false, Note: "model value of parameter " + p.Name() + " cannot be turned into a Go argument"}
			return
		}
		argExprs = append(argExprs, a.goExpr)
		envVars[p.Name()] = a.val
		shown[p.Name()] = a.shown
	}
	if !bindGhosts(sc.Con, envVars) {
		v.Replay = &ReplayOutcome{Confirmed: false, Note: "model argument does not have the contract's shape"}
		return
	}
	in, _ := json.Marshal(shown)
	real := rep.VC.runReal(fn, argExprs)
	out := &ReplayOutcome{Inputs: string(in), Test: real.Test}
	v.Replay = out
	if real.Err != "" {
		out.Note = real.Err
		return
	}
	if real.Panicked {
		out.Output = "panic: " + real.Panic
		if best.Ob.Kind == "S" || best.Ob.Kind == "P" || best.Ob.Kind == "R" {
			out.Confirmed = true
			out.Note = "the real function panics on the model's arguments"
		}
		return
	}
	var shownRes []string
	for i, r := range real.Results {
		shownRes = append(shownRes, fmt.Sprintf("r%d=%v", i, showValue(r)))
	}
	out.Output = strings.Join(shownRes, " ")
	if best.Ob.Kind != "P" || best.Ob.Clause == nil {
		out.Note = "obligation kind " + best.Ob.Kind + " has no observable outcome to compare; model shown"
		return
	}
	rsig := fn.Signature.Results()
	for i := 0; i < rsig.Len(); i++ {
		if real.Results[i] != nil {
			envVars[fmt.Sprintf("r%d", i)] = real.Results[i]
			if n := rsig.At(i).Name(); n != "" && n != "_" {
				envVars[n] = real.Results[i]
			}
		}
	}
	val, err := Eval(best.Ob.Clause.Expr, &EvalEnv{Vars: envVars, Defs: rep.VC.cs.Defs})
	if err != nil {
		out.Note = "clause not evaluable on the concrete run: " + err.Error()
		return
	}
	if b, ok := val.(bool); ok && !b {
		out.Confirmed = true
		out.Note = "the clause is false on the real function's results"
	} else {
		out.Note = "the real function satisfies the clause on the model's arguments (spurious model: abstraction or rounding)"
	}
}

func showValue(v Value) string {
	switch x := v.(type) {
	case nil:
		return "?"
	case *big.Rat:
		f, _ := x.Float64()
		return fmt.Sprint(f)
	case []Value:
		var s []string
		for _, e := range x {
			s = append(s, showValue(e))
		}
		return "[" + strings.Join(s, " ") + "]"
	}
	return fmt.Sprint(v)
}

// corpusReplay: when the solver gives no usable model, run the real function
// on a small deterministic corpus of boundary arguments and evaluate the
// failed clause on each outcome.
func (rep *Report) corpusReplay(v *Violation, best *ObResult) {
	if best.Ob.Kind != "P" && best.Ob.Kind != "S" && best.Ob.Kind != "I1" && best.Ob.Kind != "I0" && best.Ob.Kind != "R" {
		return
	}
	sc := best.Script
	fn := rep.funcOfContract(sc.Con)
	if fn == nil || fn.Signature.Recv() != nil {
		return
	}
	if fn.TypeParams().Len() > 0 && len(fn.TypeArgs()) == 0 {
		return
	}
	splitVal := map[string]int{}
	for i, sp := range sc.Splits {
		if i < len(best.InstVals) {
			splitVal[sp.Var] = best.InstVals[i]
		}
	}
	type cand struct {
		expr string
		val  Value
	}
	ints := []int64{0, 1, -1, 2, -2, 3, -3, 5, -8, 7}
	strs := []string{"0/0/0/0/0", "1/0/0/1/-1", "1/1/1/1/0", "2/3/1/3/-5", "3/7/0/2/-1", "2/0/3/1/1", "1/0/0/1", "a/0/0/0/0", "1/2", "", "2/1/1/2/b", "4/-1/3/3"}
	lists := [][]string{{}, {"1/0/0/1/-1"}, {"1/0/0/1/-1", "1/0/0/1/0"}, {"0/0/0/0/0", "0/0/0/0/0"}, {"2/3/1/3/-5", "1/1/1/1/0", "2/3/1/3/-5"}, {"1/2"}, {"1/0/0/1/-1", "x"}, {"2/-1/3/2"}}
	floats := []float64{0, 1, -1, 0.5, -0.5, 180, -180, 85.0511287798, -85.0511287798, 1e-9, 33554432}
	var doms [][]cand
	for _, p := range fn.Params {
		var d []cand
		if sv, ok := splitVal[p.Name()]; ok {
			d = []cand{{fmt.Sprintf("%s(%d)", types.TypeString(p.Type(), qualifierShort), sv), big.NewInt(int64(sv))}}
		} else {
			switch u := p.Type().Underlying().(type) {
			case *types.Basic:
				switch {
				case u.Info()&types.IsInteger != 0:
					for _, n := range ints {
						d = append(d, cand{fmt.Sprintf("%s(%d)", types.TypeString(p.Type(), qualifierShort), n), big.NewInt(n)})
					}
				case u.Info()&types.IsString != 0:
					for _, s := range strs {
						d = append(d, cand{fmt.Sprintf("%q", s), s})
					}
				case u.Info()&types.IsBoolean != 0:
					d = []cand{{"true", true}, {"false", false}}
				case u.Info()&types.IsFloat != 0:
					for _, fl := range floats {
						r := new(big.Rat)
						r.SetFloat64(fl)
						d = append(d, cand{fmt.Sprintf("math.Float64frombits(0x%x)", math.Float64bits(fl)), r})
					}
				}
			case *types.Slice:
				if eb, ok := u.Elem().Underlying().(*types.Basic); ok && eb.Info()&types.IsString != 0 {
					for _, l := range lists {
						var q []string
						var vs []Value
						for _, e := range l {
							q = append(q, fmt.Sprintf("%q", e))
							vs = append(vs, e)
						}
						if vs == nil {
							vs = []Value{}
						}
						d = append(d, cand{"[]string{" + strings.Join(q, ", ") + "}", vs})
					}
				}
			}
		}
		if len(d) == 0 {
			return
		}
		doms = append(doms, d)
	}
	// cartesian product; when too large, a seeded sample of it
	total := 1
	for _, d := range doms {
		total *= len(d)
		if total > 1<<30 {
			total = 1 << 30
			break
		}
	}
	var cases [][]string
	var caseVals [][]Value
	addCase := func(idx []int) {
		var ex []string
		var vs []Value
		for i, d := range doms {
			ex = append(ex, d[idx[i]].expr)
			vs = append(vs, d[idx[i]].val)
		}
		cases = append(cases, ex)
		caseVals = append(caseVals, vs)
	}
	const maxCases = 3000
	if total <= maxCases {
		idx := make([]int, len(doms))
		for {
			addCase(idx)
			k := len(idx) - 1
			for k >= 0 {
				idx[k]++
				if idx[k] < len(doms[k]) {
					break
				}
				idx[k] = 0
				k--
			}
			if k < 0 {
				break
			}
		}
	} else {
		rng := rand.New(rand.NewSource(int64(seedFromEnv())))
		seen := map[string]bool{}
		for tries := 0; len(cases) < maxCases && tries < maxCases*4; tries++ {
			idx := make([]int, len(doms))
			for i, d := range doms {
				idx[i] = rng.Intn(len(d))
			}
			k := fmt.Sprint(idx)
			if seen[k] {
				continue
			}
			seen[k] = true
			addCase(idx)
		}
	}
	if len(cases) == 0 {
		return
	}
	results := rep.VC.runRealCases(fn, cases)
	rsig := fn.Signature.Results()
	for ci, real := range results {
		if real.Err != "" {
			if v.Replay == nil {
				v.Replay = &ReplayOutcome{Note: "corpus search: " + real.Err}
			}
			return
		}
		shown := map[string]string{}
		for i, p := range fn.Params {
			shown[p.Name()] = cases[ci][i]
		}
		in, _ := json.Marshal(shown)
		if real.Panicked {
			if best.Ob.Kind == "S" || best.Ob.Kind == "P" {
				// panics matter only inside the function's precondition
				if !rep.requiresHold(sc.Con, fn, caseVals[ci]) {
					continue
				}
				v.Replay = &ReplayOutcome{Confirmed: true, Inputs: string(in), Output: "panic: " + real.Panic, Note: "found by the boundary corpus: the real function panics", Test: rep.VC.singleTest(fn, cases[ci])}
				return
			}
			continue
		}
		if best.Ob.Kind != "P" || best.Ob.Clause == nil {
			continue
		}
		envVars := map[string]Value{}
		for i, p := range fn.Params {
			envVars[p.Name()] = caseVals[ci][i]
		}
		if !rep.requiresHold(sc.Con, fn, caseVals[ci]) {
			continue
		}
		bindGhosts(sc.Con, envVars)
		complete := true
		for i := 0; i < rsig.Len(); i++ {
			if real.Results[i] == nil {
				complete = false
				continue
			}
			envVars[fmt.Sprintf("r%d", i)] = real.Results[i]
			if n := rsig.At(i).Name(); n != "" && n != "_" {
				envVars[n] = real.Results[i]
			}
		}
		_ = complete
		val, err := Eval(best.Ob.Clause.Expr, &EvalEnv{Vars: envVars, Defs: rep.VC.cs.Defs})
		if err != nil {
			continue
		}
		if b, ok := val.(bool); ok && !b {
			var shownRes []string
			for i, r := range real.Results {
				shownRes = append(shownRes, fmt.Sprintf("r%d=%v", i, showValue(r)))
			}
			v.Replay = &ReplayOutcome{Confirmed: true, Inputs: string(in), Output: strings.Join(shownRes, " "),
				Note: "found by the boundary corpus: the clause is false on the real function's results (quantifiers evaluated over the finite relevant domain)", Test: rep.VC.singleTest(fn, cases[ci])}
			return
		}
	}
}

func (rep *Report) requiresHold(con *Contract, fn *ssa.Function, vals []Value) bool {
	envVars := map[string]Value{}
	for i, p := range fn.Params {
		envVars[p.Name()] = vals[i]
	}
	if !bindGhosts(con, envVars) || !splitsHold(con, envVars) {
		return false
	}
	for _, c := range con.Requires {
		val, err := Eval(c.Expr, &EvalEnv{Vars: envVars, Defs: rep.VC.cs.Defs})
		if err != nil {
			return false
		}
		if b, ok := val.(bool); !ok || !b {
			return false
		}
	}
	return true
}

func (vc *VC) singleTest(fn *ssa.Function, args []string) string {
	return fmt.Sprintf("call: %s(%s)", fn.Name(), strings.Join(args, ", "))
}

func (rep *Report) funcOfContract(con *Contract) *ssa.Function {
	for k, c := range rep.VC.cs.Funcs {
		if c == con {
			return rep.VC.funcsByKey[k]
		}
		for _, cc := range c.Cases {
			if cc == con {
				return rep.VC.funcsByKey[k]
			}
		}
	}
	return nil
}

// bindGhosts derives the ghost integers of shaped parameters from the
// concrete argument strings; false if an argument does not have the shape.
func bindGhosts(con *Contract, envVars map[string]Value) bool {
	for _, sh := range con.Shapes {
		sv, ok := envVars[sh.Param].(string)
		if !ok {
			return false
		}
		fs := strings.Split(sv, "/")
		if len(fs) != len(sh.Ghosts) {
			return false
		}
		for i, g := range sh.Ghosts {
			n, ok := new(big.Int).SetString(fs[i], 10)
			if !ok || n.String() != fs[i] || n.Cmp(bigMin64) < 0 || n.Cmp(bigMax64) > 0 {
				return false
			}
			envVars[g] = n
		}
	}
	return true
}

func splitsHold(con *Contract, envVars map[string]Value) bool {
	for _, sp := range con.Splits {
		v, ok := envVars[sp.Var]
		if !ok {
			return false
		}
		n, ok := v.(*big.Int)
		if !ok || !n.IsInt64() || n.Int64() < int64(sp.Lo) || n.Int64() > int64(sp.Hi) {
			return false
		}
	}
	return true
}

// witnessFindings replays the witness of every listed witness finding of the
// property on the real code; a finding whose witness still violates its
// clause is reported (KNOWN-FINDING), one that no longer does is silent.
func (rep *Report) witnessFindings(kf *KnownFindings) []string {
	var seen []string
	for _, f := range kf.List {
		if f.Prop != rep.Prop || f.Witness == "" {
			continue
		}
		op := strings.Index(f.Witness, "(")
		if op < 0 || !strings.HasSuffix(f.Witness, ")") {
			continue
		}
		key := f.Witness[:op]
		fn := rep.VC.funcsByKey[key]
		if fn == nil {
			continue
		}
		rawArgs := splitTopLevel(f.Witness[op+1 : len(f.Witness)-1])
		if len(rawArgs) != len(fn.Params) {
			continue
		}
		var exprs []string
		env := map[string]Value{}
		ok := true
		for i, p := range fn.Params {
			a := strings.TrimSpace(rawArgs[i])
			switch {
			case isFloat(p.Type()):
				var fl float64
				if _, err := fmt.Sscanf(a, "%g", &fl); err != nil {
					ok = false
				}
				r := new(big.Rat)
				r.SetFloat64(fl)
				env[p.Name()] = r
				exprs = append(exprs, fmt.Sprintf("math.Float64frombits(0x%x)", math.Float64bits(fl)))
			case isInteger(p.Type()):
				n, good := new(big.Int).SetString(a, 10)
				if !good {
					ok = false
				}
				env[p.Name()] = n
				exprs = append(exprs, fmt.Sprintf("%s(%s)", types.TypeString(p.Type(), qualifierShort), a))
			default:
				if b, isB := p.Type().Underlying().(*types.Basic); isB && b.Info()&types.IsString != 0 {
					sv := strings.Trim(a, "\"")
					env[p.Name()] = sv
					exprs = append(exprs, fmt.Sprintf("%q", sv))
				} else {
					ok = false
				}
			}
		}
		if !ok {
			continue
		}
		real := rep.VC.runReal(fn, exprs)
		if real.Err != "" {
			continue
		}
		if real.Panicked {
			seen = append(seen, f.ID)
			fmt.Printf("KNOWN-FINDING: property=%s %s %s (witness %s panics)\n", rep.Prop, f.ID, f.Desc, f.Witness)
			continue
		}
		for i, r := range real.Results {
			if r != nil {
				env[fmt.Sprintf("r%d", i)] = r
			}
		}
		e, err := ParseExpr(f.Expect)
		if err != nil {
			continue
		}
		val, err := Eval(e, &EvalEnv{Vars: env, Defs: rep.VC.cs.Defs})
		if err != nil {
			continue
		}
		if b, isB := val.(bool); isB && !b {
			seen = append(seen, f.ID)
			var shownRes []string
			for i, r := range real.Results {
				shownRes = append(shownRes, fmt.Sprintf("r%d=%v", i, showValue(r)))
			}
			fmt.Printf("KNOWN-FINDING: property=%s %s %s (witness %s returns %s)\n", rep.Prop, f.ID, f.Desc, f.Witness, strings.Join(shownRes, " "))
		}
	}
	return seen
}

func splitTopLevel(s string) []string {
	var out []string
	depth := 0
	start := 0
	inStr := false
	for i, c := range s {
		switch {
		case c == '"':
			inStr = !inStr
		case inStr:
		case c == '(':
			depth++
		case c == ')':
			depth--
		case c == ',' && depth == 0:
			out = append(out, s[start:i])
			start = i + 1
		}
	}
	if strings.TrimSpace(s[start:]) != "" {
		out = append(out, s[start:])
	}
	return out
}

// govcDumpSrc is appended to a replay test whose function returns a struct or array: a reflective printer that
// writes floats as their IEEE bit patterns (no rounding through decimal text).
const govcDumpSrc = `
func govcDump(v reflect.Value) string {
	switch v.Kind() {
	case reflect.Float64, reflect.Float32:
		return fmt.Sprintf("{\"f\":\"%d\"}", math.Float64bits(v.Float()))
	case reflect.Int, reflect.Int8, reflect.Int16, reflect.Int32, reflect.Int64:
		return fmt.Sprintf("{\"i\":\"%d\"}", v.Int())
	case reflect.Bool:
		return fmt.Sprintf("{\"b\":%v}", v.Bool())
	case reflect.String:
		return fmt.Sprintf("{\"t\":%q}", v.String())
	case reflect.Struct:
		var parts []string
		for i := 0; i < v.NumField(); i++ {
			parts = append(parts, fmt.Sprintf("%q:%s", v.Type().Field(i).Name, govcDump(v.Field(i))))
		}
		return "{\"s\":{" + strings.Join(parts, ",") + "}}"
	case reflect.Array, reflect.Slice:
		var parts []string
		for i := 0; i < v.Len(); i++ {
			parts = append(parts, govcDump(v.Index(i)))
		}
		return "{\"a\":[" + strings.Join(parts, ",") + "]}"
	}
	return "{\"o\":null}"
}
`

func dumpToValue(x interface{}) Value {
	m, ok := x.(map[string]interface{})
	if !ok {
		return nil
	}
	if f, ok := m["f"].(string); ok {
		var bits uint64
		fmt.Sscanf(f, "%d", &bits)
		fl := math.Float64frombits(bits)
		if math.IsNaN(fl) || math.IsInf(fl, 0) {
			return nil
		}
		r := new(big.Rat)
		r.SetFloat64(fl)
		return r
	}
	if i, ok := m["i"].(string); ok {
		n, _ := new(big.Int).SetString(i, 10)
		return n
	}
	if b, ok := m["b"].(bool); ok {
		return b
	}
	if t, ok := m["t"].(string); ok {
		return t
	}
	if st, ok := m["s"].(map[string]interface{}); ok {
		out := map[string]Value{}
		for k, v := range st {
			out[k] = dumpToValue(v)
		}
		return out
	}
	if a, ok := m["a"].([]interface{}); ok {
		out := []Value{}
		for _, v := range a {
			out = append(out, dumpToValue(v))
		}
		return out
	}
	return nil
}
