package main

import (
	"encoding/json"
	"fmt"
	"go/types"
	"math"
	"math/big"
	"os"
	"os/exec"
	"path/filepath"
	"strings"
	"time"

	"golang.org/x/tools/go/ssa"
)

// Replay of solver counterexamples against the real code: the model's
// arguments are written into an in-package test that calls the real function;
// the test is injected with `go test -overlay` (nothing is written into the
// repository); the contract clause is then evaluated on the observed results
// by the concrete evaluator (eval.go).

type ReplayInput struct {
	Func    string            `json:"func"` // pkgdir:FuncKey
	Args    []string          `json:"args"` // Go expressions
	ArgVals map[string]string `json:"arg_values"`
}

// modelValues parses a (get-value ...) answer into name -> s-expression.
func modelValues(detail string) map[string]*sx {
	out := map[string]*sx{}
	i := strings.Index(detail, "((")
	if i < 0 {
		return out
	}
	x := parseSx(detail[i:])
	if x == nil {
		return out
	}
	for _, pair := range x.list {
		if len(pair.list) == 2 {
			out[pair.list[0].String()] = pair.list[1]
		}
	}
	return out
}

func sxInt(x *sx) (*big.Int, bool) {
	if n, ok := x.num(); ok {
		return n, true
	}
	return nil, false
}

func sxRat(x *sx) (*big.Rat, bool) {
	if x.list == nil {
		r, ok := new(big.Rat).SetString(x.atom)
		return r, ok
	}
	if len(x.list) == 2 && x.list[0].isAtom("-") {
		r, ok := sxRat(x.list[1])
		if !ok {
			return nil, false
		}
		return r.Neg(r), true
	}
	if len(x.list) == 3 && x.list[0].isAtom("/") {
		a, ok1 := sxRat(x.list[1])
		b, ok2 := sxRat(x.list[2])
		if !ok1 || !ok2 || b.Sign() == 0 {
			return nil, false
		}
		return a.Quo(a, b), true
	}
	return nil, false
}

func sxAtom(x *sx) (string, bool) {
	if x.list == nil {
		switch x.atom {
		case "a.empty":
			return "", true
		case "a.none":
			return "", false
		}
		return "", false
	}
	if len(x.list) < 2 || x.list[0].list != nil {
		return "", false
	}
	switch x.list[0].atom {
	case "a.num":
		n, ok := sxInt(x.list[1])
		if !ok {
			return "", false
		}
		return n.String(), true
	case "a.alt":
		n, ok := sxInt(x.list[1])
		if !ok {
			return "", false
		}
		if n.Sign() >= 0 {
			return "+" + n.String(), true
		}
		return "-0" + new(big.Int).Neg(n).String(), true
	case "a.junk":
		n, ok := sxInt(x.list[1])
		if !ok {
			return "", false
		}
		if n.Sign() == 0 {
			return "", true
		}
		return "x" + n.String(), true
	}
	return "", false
}

func sxStr(x *sx) (string, bool) {
	// (mkstr nf f0 .. f5 rest)
	if x.list == nil || len(x.list) != 9 || !x.list[0].isAtom("mkstr") {
		return "", false
	}
	n, ok := sxInt(x.list[1])
	if !ok || !n.IsInt64() || n.Int64() < 1 || n.Int64() > 12 {
		return "", false
	}
	var fs []string
	for i := 0; i < int(n.Int64()); i++ {
		if i < 6 {
			a, ok := sxAtom(x.list[2+i])
			if !ok {
				return "", false
			}
			fs = append(fs, a)
		} else {
			fs = append(fs, "0")
		}
	}
	return strings.Join(fs, "/"), true
}

type replayArg struct {
	goExpr string
	val    Value
	shown  string
}

func (rep *Report) modelArg(p *ssa.Parameter, name string, vals map[string]*sx) (replayArg, bool) {
	t := p.Type()
	if x, ok := vals[name]; ok {
		switch u := t.Underlying().(type) {
		case *types.Basic:
			switch {
			case u.Info()&types.IsInteger != 0:
				n, ok := sxInt(x)
				if !ok {
					return replayArg{}, false
				}
				return replayArg{goExpr: fmt.Sprintf("%s(%s)", types.TypeString(t, qualifierShort), n.String()), val: n, shown: n.String()}, true
			case u.Info()&types.IsFloat != 0:
				r, ok := sxRat(x)
				if !ok {
					return replayArg{}, false
				}
				fl, _ := r.Float64()
				exact := new(big.Rat)
				exact.SetFloat64(fl)
				return replayArg{goExpr: fmt.Sprintf("math.Float64frombits(0x%x)", math.Float64bits(fl)), val: exact, shown: fmt.Sprintf("%v", fl)}, true
			case u.Info()&types.IsString != 0:
				s, ok := sxStr(x)
				if !ok {
					return replayArg{}, false
				}
				return replayArg{goExpr: fmt.Sprintf("%q", s), val: s, shown: fmt.Sprintf("%q", s)}, true
			case u.Info()&types.IsBoolean != 0:
				b := x.isAtom("true")
				return replayArg{goExpr: fmt.Sprint(b), val: b, shown: fmt.Sprint(b)}, true
			}
		}
	}
	if sl, ok := t.Underlying().(*types.Slice); ok {
		lx, ok := vals[fmt.Sprintf("(seq.len %s)", name)]
		if !ok {
			return replayArg{}, false
		}
		n, ok := sxInt(lx)
		if !ok || !n.IsInt64() || n.Int64() < 0 || n.Int64() > 4 {
			return replayArg{}, false
		}
		var elems []string
		var vs []Value
		for k := 0; k < int(n.Int64()); k++ {
			ex, ok := vals[fmt.Sprintf("(select (seq.el %s) %d)", name, k)]
			if !ok {
				return replayArg{}, false
			}
			switch eu := sl.Elem().Underlying().(type) {
			case *types.Basic:
				if eu.Info()&types.IsString != 0 {
					s, ok := sxStr(ex)
					if !ok {
						return replayArg{}, false
					}
					elems = append(elems, fmt.Sprintf("%q", s))
					vs = append(vs, s)
				} else if eu.Info()&types.IsInteger != 0 {
					m, ok := sxInt(ex)
					if !ok {
						return replayArg{}, false
					}
					elems = append(elems, m.String())
					vs = append(vs, m)
				} else {
					return replayArg{}, false
				}
			default:
				return replayArg{}, false
			}
		}
		lit := fmt.Sprintf("%s{%s}", types.TypeString(t, qualifierShort), strings.Join(elems, ", "))
		return replayArg{goExpr: lit, val: vs, shown: lit}, true
	}
	return replayArg{}, false
}

func qualifierShort(p *types.Package) string { return p.Name() }

// runReal calls the real function with the given Go argument expressions.
type RealResult struct {
	Panicked bool
	Panic    string
	Results  []Value
	Raw      string
	Test     string
	Err      string
}

func (vc *VC) runReal(fn *ssa.Function, argExprs []string) *RealResult {
	res := &RealResult{}
	dir, ok := vc.dirOf(fn)
	if !ok || fn.Signature.Recv() != nil {
		res.Err = "not replayable: method or external function"
		return res
	}
	pkgName := fn.Pkg.Pkg.Name()
	name := fn.Name()
	if i := strings.Index(name, "["); i >= 0 {
		name = name[:i] // generic instance: let Go infer
	}
	rs := fn.Signature.Results()
	var lhs []string
	var prints []string
	imports := map[string]bool{"fmt": true, "testing": true}
	for i := 0; i < rs.Len(); i++ {
		v := fmt.Sprintf("r%d", i)
		lhs = append(lhs, v)
		t := rs.At(i).Type()
		switch {
		case isErrorType(t):
			prints = append(prints, fmt.Sprintf("fmt.Printf(\"GOVC-R %d err %%v\\n\", %s != nil)", i, v))
		case isInteger(t):
			prints = append(prints, fmt.Sprintf("fmt.Printf(\"GOVC-R %d int %%d\\n\", %s)", i, v))
		case isFloat(t):
			imports["math"] = true
			prints = append(prints, fmt.Sprintf("fmt.Printf(\"GOVC-R %d float %%d\\n\", math.Float64bits(float64(%s)))", i, v))
		default:
			switch u := t.Underlying().(type) {
			case *types.Basic:
				if u.Info()&types.IsString != 0 {
					prints = append(prints, fmt.Sprintf("fmt.Printf(\"GOVC-R %d str %%q\\n\", %s)", i, v))
				} else if u.Info()&types.IsBoolean != 0 {
					prints = append(prints, fmt.Sprintf("fmt.Printf(\"GOVC-R %d bool %%v\\n\", %s)", i, v))
				} else {
					prints = append(prints, fmt.Sprintf("_ = %s; fmt.Printf(\"GOVC-R %d other\\n\")", v, i))
				}
			case *types.Slice:
				eb, isb := u.Elem().Underlying().(*types.Basic)
				if isb && (eb.Info()&types.IsString != 0 || eb.Info()&types.IsInteger != 0) {
					imports["encoding/json"] = true
					prints = append(prints, fmt.Sprintf("{ b, _ := json.Marshal(%s); fmt.Printf(\"GOVC-R %d list %%s\\n\", b) }", v, i))
				} else {
					prints = append(prints, fmt.Sprintf("_ = %s; fmt.Printf(\"GOVC-R %d other\\n\")", v, i))
				}
			default:
				prints = append(prints, fmt.Sprintf("_ = %s; fmt.Printf(\"GOVC-R %d other\\n\")", v, i))
			}
		}
	}
	for _, a := range argExprs {
		if strings.Contains(a, "math.") {
			imports["math"] = true
		}
		// qualified types of other packages are not imported: give up on those
	}
	var sb strings.Builder
	fmt.Fprintf(&sb, "package %s\n\nimport (\n", pkgName)
	for imp := range imports {
		fmt.Fprintf(&sb, "\t%q\n", imp)
	}
	sb.WriteString(")\n\nfunc TestGovcReplay(t *testing.T) {\n")
	sb.WriteString("\tdefer func() {\n\t\tif r := recover(); r != nil {\n\t\t\tfmt.Printf(\"GOVC-PANIC %v\\n\", r)\n\t\t}\n\t}()\n")
	call := fmt.Sprintf("%s(%s)", name, strings.Join(argExprs, ", "))
	if len(lhs) > 0 {
		fmt.Fprintf(&sb, "\t%s := %s\n", strings.Join(lhs, ", "), call)
	} else {
		fmt.Fprintf(&sb, "\t%s\n", call)
	}
	for _, p := range prints {
		fmt.Fprintf(&sb, "\t%s\n", p)
	}
	sb.WriteString("\tfmt.Println(\"GOVC-DONE\")\n}\n")
	res.Test = sb.String()
	tmp, err := os.MkdirTemp("", "govc-replay")
	if err != nil {
		res.Err = err.Error()
		return res
	}
	defer os.RemoveAll(tmp)
	testFile := filepath.Join(tmp, "zz_govc_replay_test.go")
	os.WriteFile(testFile, []byte(res.Test), 0o644)
	target := filepath.Join(vc.repo, dir, "zz_govc_replay_test.go")
	ov, _ := json.Marshal(map[string]interface{}{"Replace": map[string]string{target: testFile}})
	ovFile := filepath.Join(tmp, "overlay.json")
	os.WriteFile(ovFile, ov, 0o644)
	cmd := exec.Command("go", "test", "-tags=verif", "-overlay", ovFile, "-vet=off", "-v", "-count=1", "-timeout", "60s", "-run", "^TestGovcReplay$", "./"+dir)
	cmd.Dir = vc.repo
	cmd.Env = append(os.Environ(), "GOFLAGS=-mod=mod", "GOPROXY=off", "GOSUMDB=off", "GOTOOLCHAIN=local", "GOCACHE="+goCacheDir())
	done := make(chan struct{})
	var out []byte
	go func() {
		out, _ = cmd.CombinedOutput()
		close(done)
	}()
	select {
	case <-done:
	case <-time.After(120 * time.Second):
		if cmd.Process != nil {
			cmd.Process.Kill()
		}
		res.Err = "replay timed out"
		return res
	}
	res.Raw = string(out)
	res.Results = make([]Value, rs.Len())
	sawDone := false
	for _, ln := range strings.Split(res.Raw, "\n") {
		switch {
		case strings.HasPrefix(ln, "GOVC-PANIC "):
			res.Panicked = true
			res.Panic = strings.TrimPrefix(ln, "GOVC-PANIC ")
		case strings.HasPrefix(ln, "GOVC-DONE"):
			sawDone = true
		case strings.HasPrefix(ln, "GOVC-R "):
			f := strings.SplitN(ln, " ", 4)
			var idx int
			fmt.Sscanf(f[1], "%d", &idx)
			if idx < 0 || idx >= len(res.Results) {
				continue
			}
			payload := ""
			if len(f) > 3 {
				payload = f[3]
			}
			switch f[2] {
			case "err", "bool":
				res.Results[idx] = payload == "true"
			case "int":
				n, _ := new(big.Int).SetString(payload, 10)
				res.Results[idx] = n
			case "float":
				var bits uint64
				fmt.Sscanf(payload, "%d", &bits)
				r := new(big.Rat)
				fl := math.Float64frombits(bits)
				if !math.IsNaN(fl) && !math.IsInf(fl, 0) {
					r.SetFloat64(fl)
					res.Results[idx] = r
				}
			case "str":
				var s string
				fmt.Sscanf(payload, "%q", &s)
				res.Results[idx] = s
			case "list":
				var raw []interface{}
				dec := json.NewDecoder(strings.NewReader(payload))
				dec.UseNumber()
				if err := dec.Decode(&raw); err == nil {
					vs := []Value{}
					for _, e := range raw {
						switch ev := e.(type) {
						case string:
							vs = append(vs, ev)
						case json.Number:
							n, _ := new(big.Int).SetString(ev.String(), 10)
							vs = append(vs, n)
						}
					}
					res.Results[idx] = vs
				}
			}
		}
	}
	if !sawDone && !res.Panicked {
		res.Err = "replay did not complete: " + firstLines(res.Raw, 12)
	}
	return res
}

func goCacheDir() string {
	if d := os.Getenv("GOCACHE"); d != "" {
		return d
	}
	home, _ := os.UserHomeDir()
	return filepath.Join(home, ".cache", "go-build")
}

// attachReplay tries to turn a solver model into a confirmed failing input.
func (rep *Report) attachReplay(v *Violation, rs []*ObResult, best *ObResult) {
	if best.Status != "sat" || best.Script == nil || best.Script.Con == nil || best.Ob.ExpectSat {
		return
	}
	sc := best.Script
	key := ""
	for k, c := range rep.VC.cs.Funcs {
		if c == sc.Con {
			key = k
		}
	}
	fn := rep.VC.funcsByKey[key]
	if fn == nil {
		return
	}
	vals := modelValues(best.Detail)
	splitVal := map[string]int{}
	for i, sp := range sc.Splits {
		if i < len(best.InstVals) {
			splitVal[sp.Var] = best.InstVals[i]
		}
	}
	var argExprs []string
	envVars := map[string]Value{}
	shown := map[string]string{}
	for _, p := range fn.Params {
		if sv, ok := splitVal[p.Name()]; ok {
			argExprs = append(argExprs, fmt.Sprintf("%s(%d)", types.TypeString(p.Type(), qualifierShort), sv))
			envVars[p.Name()] = big.NewInt(int64(sv))
			shown[p.Name()] = fmt.Sprint(sv)
			continue
		}
		a, ok := rep.modelArg(p, "p!"+p.Name(), vals)
		if !ok {
			v.Replay = &ReplayOutcome{Confirmed: false, Note: "model value of parameter " + p.Name() + " cannot be turned into a Go argument"}
			return
		}
		argExprs = append(argExprs, a.goExpr)
		envVars[p.Name()] = a.val
		shown[p.Name()] = a.shown
	}
	in, _ := json.Marshal(shown)
	real := rep.VC.runReal(fn, argExprs)
	out := &ReplayOutcome{Inputs: string(in), Test: real.Test}
	v.Replay = out
	if real.Err != "" {
		out.Note = real.Err
		return
	}
	if real.Panicked {
		out.Output = "panic: " + real.Panic
		if best.Ob.Kind == "S" || best.Ob.Kind == "P" || best.Ob.Kind == "R" {
			out.Confirmed = true
			out.Note = "the real function panics on the model's arguments"
		}
		return
	}
	var shownRes []string
	for i, r := range real.Results {
		shownRes = append(shownRes, fmt.Sprintf("r%d=%v", i, showValue(r)))
	}
	out.Output = strings.Join(shownRes, " ")
	if best.Ob.Kind != "P" || best.Ob.Clause == nil {
		out.Note = "obligation kind " + best.Ob.Kind + " has no observable outcome to compare; model shown"
		return
	}
	rsig := fn.Signature.Results()
	for i := 0; i < rsig.Len(); i++ {
		if real.Results[i] != nil {
			envVars[fmt.Sprintf("r%d", i)] = real.Results[i]
			if n := rsig.At(i).Name(); n != "" && n != "_" {
				envVars[n] = real.Results[i]
			}
		}
	}
	val, err := Eval(best.Ob.Clause.Expr, &EvalEnv{Vars: envVars, Defs: rep.VC.cs.Defs})
	if err != nil {
		out.Note = "clause not evaluable on the concrete run: " + err.Error()
		return
	}
	if b, ok := val.(bool); ok && !b {
		out.Confirmed = true
		out.Note = "the clause is false on the real function's results"
	} else {
		out.Note = "the real function satisfies the clause on the model's arguments (spurious model: abstraction or rounding)"
	}
}

func showValue(v Value) string {
	switch x := v.(type) {
	case nil:
		return "?"
	case *big.Rat:
		f, _ := x.Float64()
		return fmt.Sprint(f)
	case []Value:
		var s []string
		for _, e := range x {
			s = append(s, showValue(e))
		}
		return "[" + strings.Join(s, " ") + "]"
	}
	return fmt.Sprint(v)
}
