package main

import (
	"fmt"
	"go/token"
	"go/types"
	"math/big"
	"strings"

	"golang.org/x/tools/go/ssa"
)

func (f *fctx) instr(ins ssa.Instruction) {
	switch ins := ins.(type) {
	case *ssa.DebugRef:
		return
	case *ssa.BinOp:
		f.binop(ins)
	case *ssa.UnOp:
		f.unop(ins)
	case *ssa.Convert:
		f.convert(ins)
	case *ssa.ChangeType:
		if pl, ok := f.places[ins.X]; ok && pl.Kind == PCell {
			if _, isPtr := ins.Type().Underlying().(*types.Pointer); isPtr {
				// the address of a local variable handed out as an opaque pointer (to third-party code): the
				// variable is dead for the model from here on (any later read fails translation)
				ref := f.newRef(ins.Name())
				ref.Ty = ins.Type()
				delete(f.cur.cells, pl.Key)
				delete(f.places, ins.X)
				f.vals[ins] = ref
				return
			}
		}
		if ia, ok := ins.X.(*ssa.IndexAddr); ok {
			if _, isPtr := ins.Type().Underlying().(*types.Pointer); isPtr && f.neverLoadsElems(ia.X.Type()) {
				// address of an element of a local slice handed out as an opaque pointer; sound because this
				// function never reads elements of slices of that type (checked syntactically)
				ref := f.newRef(ins.Name())
				ref.Ty = ins.Type()
				f.vals[ins] = ref
				return
			}
		}
		t := f.val(ins.X)
		if t.Sort != nil && t.Sort.Kind == KStruct {
			// conversion between two named struct types with the same underlying struct (type Vector3 r3.Vec):
			// rebuild the value field by field in the target datatype
			if ts := f.vc.sortOf(ins.Type()); ts != nil && ts.Kind == KStruct && ts.Name != t.Sort.Name && len(ts.Fields) == len(t.Sort.Fields) {
				if len(ts.Fields) == 0 {
					t = Term{S: "mk_" + ts.Name, Sort: ts}
				} else {
					parts := make([]string, len(ts.Fields))
					for i, fl := range t.Sort.Fields {
						parts[i] = fmt.Sprintf("(%s.%s %s)", t.Sort.Name, fl.Name, t.S)
					}
					t = Term{S: "(mk_" + ts.Name + " " + strings.Join(parts, " ") + ")", Sort: ts}
				}
			}
		}
		t.Ty = ins.Type()
		f.vals[ins] = t
	case *ssa.Call:
		f.call(ins)
	case *ssa.Extract:
		tup, ok := f.tuples[ins.Tuple]
		if !ok {
			f.fail("extract from unknown tuple %s", ins.Tuple.Name())
		}
		t := tup[ins.Index]
		t.Ty = ins.Type()
		f.vals[ins] = t
	case *ssa.If, *ssa.Jump:
		return
	case *ssa.Return:
		var vals []Term
		for _, r := range ins.Results {
			vals = append(vals, f.val(r))
		}
		f.rets = append(f.rets, retInfo{cond: f.curReach, vals: vals, state: f.cur.clone(), pos: ins.Pos()})
	case *ssa.Panic:
		f.oblige("S", fmt.Sprintf("S/panic@%s", f.insID(ins)), BoolLit(false), ins.Pos(), "explicit panic unreachable")
	case *ssa.Alloc:
		f.alloc(ins)
	case *ssa.Store:
		f.storeInstr(ins)
	case *ssa.FieldAddr:
		f.fieldAddr(ins)
	case *ssa.Field:
		x := f.val(ins.X)
		if x.Sort.Kind != KStruct {
			f.fail("field of non-struct value")
		}
		fl := x.Sort.Fields[ins.Field]
		f.defVal(ins, Term{S: fmt.Sprintf("(%s.%s %s)", x.Sort.Name, fl.Name, x.S), Sort: fl.Sort})
	case *ssa.IndexAddr:
		f.indexAddr(ins)
	case *ssa.Index:
		x := f.val(ins.X)
		i := f.val(ins.Index)
		switch x.Sort.Kind {
		case KArr:
			n := ins.X.Type().Underlying().(*types.Array).Len()
			f.oblige("S", fmt.Sprintf("S/index@%s", f.insID(ins)), T(SBool, "(and (<= 0 %s) (< %s %d))", i.S, i.S, n), ins.Pos(), "array index in range")
			f.defVal(ins, Term{S: fmt.Sprintf("(select %s %s)", x.S, i.S), Sort: x.Sort.Elem})
		default:
			f.fail("index on %s", x.Sort)
		}
	case *ssa.Slice:
		f.sliceInstr(ins)
	case *ssa.MakeSlice:
		n := f.val(ins.Len)
		f.oblige("S", fmt.Sprintf("S/makeslice@%s", f.insID(ins)), T(SBool, "(>= %s 0)", n.S), ins.Pos(), "make: non-negative length")
		if ins.Cap != nil {
			c := f.val(ins.Cap)
			f.oblige("S", fmt.Sprintf("S/makeslice-cap@%s", f.insID(ins)), T(SBool, "(>= %s %s)", c.S, n.S), ins.Pos(), "make: cap >= len")
		}
		s := f.vc.sortOf(ins.Type())
		f.defVal(ins, Term{S: fmt.Sprintf("(%s %s ((as const (Array Int %s)) %s))", mkseqOf(s), n.S, s.Elem.SMT(), ZeroOf(s.Elem).S), Sort: s})
	case *ssa.MakeMap:
		s := f.vc.sortOf(ins.Type())
		key := "M$" + f.pfx + ins.Name()
		f.cur.cells[key] = ZeroOf(s)
		f.mapKey[ins] = key
		f.vals[ins] = Term{S: "map:" + key, Sort: s, Ty: ins.Type()}
	case *ssa.MapUpdate:
		f.mapUpdate(ins)
	case *ssa.Lookup:
		f.lookup(ins)
	case *ssa.Range:
		f.rangeInstr(ins)
	case *ssa.Next:
		f.next(ins)
	case *ssa.MakeInterface:
		if isErrorType(ins.Type()) {
			// a concrete error value: non-nil unless it is a nil pointer
			x := f.val(ins.X)
			if x.Sort.Kind == KInt {
				f.vals[ins] = T(SBool, "(not (= %s 0))", x.S)
			} else {
				f.vals[ins] = BoolLit(true)
			}
			return
		}
		a := f.declare(ins.Name(), SAny)
		f.assume(T(SBool, "(not (= %s any.nil))", a.S))
		f.setVal(ins, a)
	case *ssa.ChangeInterface:
		x := f.val(ins.X)
		if x.Sort.Kind == KBool && f.vc.sortOf(ins.Type()).Kind != KBool {
			// an error (modelled by its non-nil-ness) boxed as interface{}: opaque value, nil iff the error is nil
			a := f.declare(ins.Name(), SAny)
			f.assume(T(SBool, "(= (= %s any.nil) (not %s))", a.S, x.S))
			f.setVal(ins, a)
			return
		}
		f.vals[ins] = x
	case *ssa.MakeClosure:
		f.clos[ins] = ins
		f.vals[ins] = Term{S: "closure:" + ins.Name(), Sort: SFunc}
	case *ssa.TypeAssert:
		f.fail("type assertion")
	case *ssa.Phi:
		return
	case *ssa.RunDefers:
		return
	case *ssa.Defer, *ssa.Go, *ssa.Send, *ssa.Select, *ssa.MakeChan:
		f.fail("%T", ins)
	default:
		f.fail("instruction %T", ins)
	}
}

// neverLoadsElems: no instruction of the function loads an element of a slice/array of type t.
func (f *fctx) neverLoadsElems(t types.Type) bool {
	for _, b := range f.fn.Blocks {
		for _, ins := range b.Instrs {
			switch x := ins.(type) {
			case *ssa.UnOp:
				if ia, ok := x.X.(*ssa.IndexAddr); ok && x.Op == token.MUL && types.Identical(ia.X.Type(), t) {
					return false
				}
			case *ssa.Index:
				if types.Identical(x.X.Type(), t) {
					return false
				}
			case *ssa.Range:
				if types.Identical(x.X.Type(), t) {
					return false
				}
			}
		}
	}
	return true
}

func (f *fctx) insID(ins ssa.Instruction) string {
	if v, ok := ins.(ssa.Value); ok {
		return f.pfx + v.Name()
	}
	b := ins.Block()
	for i, x := range b.Instrs {
		if x == ins {
			return fmt.Sprintf("%sb%d.%d", f.pfx, b.Index, i)
		}
	}
	return "?"
}

func pow2Str(k uint) string {
	return new(big.Int).Lsh(big.NewInt(1), k).String()
}

func isFloat(t types.Type) bool {
	b, ok := t.Underlying().(*types.Basic)
	return ok && b.Info()&types.IsFloat != 0
}

func isInteger(t types.Type) bool {
	b, ok := t.Underlying().(*types.Basic)
	return ok && b.Info()&types.IsInteger != 0
}

func isUnsigned(t types.Type) bool {
	b, ok := t.Underlying().(*types.Basic)
	return ok && b.Info()&types.IsUnsigned != 0
}

func (f *fctx) overflow(ins ssa.Value, t Term, pos token.Pos) {
	if f.con != nil && f.con.NoOverflow {
		return
	}
	lo, hi, ok := intRange(ins.Type())
	if !ok {
		return
	}
	goal := T(SBool, "(and (<= %s %s) (<= %s %s))", lo, t.S, t.S, hi)
	desc := "integer result within " + ins.Type().String()
	if f.validTerm != nil {
		goal = Implies(*f.validTerm, goal)
		desc += " (for inputs satisfying the contract's valid clause)"
	}
	f.oblige("O", fmt.Sprintf("O/%s", f.pfx+ins.Name()), goal, pos, desc)
}

// rounded models one IEEE-754 rounding of the exact real value e.
func (f *fctx) rounded(name string, e Term) Term {
	if f.ideal {
		return e
	}
	r := f.declare(name, SReal)
	// F1 (integers up to 2^53, and dyadic rationals p/2^35 with |p| <= 2^53, are representable),
	// F4 (relative error), sign preservation
	f.assume(T(SBool, "(=> (and (is_int %s) (<= (rabs %s) 9007199254740992.0)) (= %s %s))", e.S, e.S, r.S, e.S))
	f.assume(T(SBool, "(=> (and (is_int (* %s 34359738368.0)) (<= (rabs (* %s 34359738368.0)) 9007199254740992.0)) (= %s %s))", e.S, e.S, r.S, e.S))
	f.assume(T(SBool, "(<= (rabs (- %s %s)) (* (rabs %s) (/ 1.0 9007199254740992.0)))", r.S, e.S, e.S))
	f.assume(T(SBool, "(and (=> (>= %s 0.0) (>= %s 0.0)) (=> (<= %s 0.0) (<= %s 0.0)))", e.S, r.S, e.S, r.S))
	return r
}

// isPow2Term reports whether a real term is syntactically a power of two.
func isPow2Term(t Term, f *fctx) bool {
	return f.pow2Vals[t.S]
}

func (f *fctx) binop(ins *ssa.BinOp) {
	x, y := f.val(ins.X), f.val(ins.Y)
	pos := ins.Pos()
	if pos == token.NoPos {
		pos = f.nearestPos(ins)
	}
	xt := ins.X.Type()
	switch ins.Op {
	case token.EQL, token.NEQ:
		var eq Term
		switch {
		case x.Sort.Kind == KBool && isErrorType(xt) || x.Sort.Kind == KBool && isErrorType(ins.Y.Type()):
			// error comparison with nil
			if c, ok := ins.Y.(*ssa.Const); ok && c.Value == nil {
				eq = Not(x)
			} else if c, ok := ins.X.(*ssa.Const); ok && c.Value == nil {
				eq = Not(y)
			} else {
				f.fail("comparison of two error values")
			}
		case x.Sort.Kind == KSeq || x.Sort.Kind == KMap:
			// only comparison with nil is legal in Go
			if x.Sort.Kind == KSeq {
				f.fail("slice compared with nil (nil-ness of slices is not modelled)")
			}
			f.fail("map compared with nil")
		case x.Sort.Kind == KFunc:
			f.fail("function value comparison")
		default:
			eq = EqT(x, y)
		}
		if ins.Op == token.NEQ {
			eq = Not(eq)
		}
		f.defVal(ins, eq)
		return
	case token.LSS, token.LEQ, token.GTR, token.GEQ:
		op := map[token.Token]string{token.LSS: "<", token.LEQ: "<=", token.GTR: ">", token.GEQ: ">="}[ins.Op]
		if x.Sort.Kind == KStr {
			f.fail("string ordering")
		}
		f.defVal(ins, cmpT(op, x, y))
		return
	}
	if x.Sort.Kind == KStr {
		if ins.Op != token.ADD {
			f.fail("string operator %s", ins.Op)
		}
		r := f.define(ins.Name(), T(SStr, "(strcat %s %s)", x.S, y.S))
		f.oblige("S", fmt.Sprintf("M/strcat@%s", f.insID(ins)), T(SBool, "(<= (nf %s) 6)", r.S), pos, "string model: at most 6 '/'-separated fields")
		f.setVal(ins, r)
		return
	}
	if x.Sort.Kind == KBool {
		switch ins.Op {
		case token.AND:
			f.defVal(ins, And(x, y))
		case token.OR:
			f.defVal(ins, Or(x, y))
		default:
			f.fail("bool operator %s", ins.Op)
		}
		return
	}
	if x.Sort.Kind == KReal {
		var e Term
		exact := false
		switch ins.Op {
		case token.ADD:
			e = arith("+", x, y)
		case token.SUB:
			e = arith("-", x, y)
		case token.MUL:
			e = arith("*", x, y)
			exact = f.pow2Vals[x.S] || f.pow2Vals[y.S]
		case token.QUO:
			if !f.ideal {
				f.oblige("X", fmt.Sprintf("X/fdiv-nonzero@%s", f.insID(ins)), T(SBool, "(not (= %s 0.0))", y.S), pos, "float divisor non-zero (result finite)")
			}
			e = arith("/", x, y)
			exact = f.pow2Vals[y.S]
		default:
			f.fail("float operator %s", ins.Op)
		}
		ed := f.define(ins.Name()+"e", e)
		var r Term
		if exact {
			// scaling by a power of two is exact provided the result neither overflows nor
			// underflows: that side condition is an X obligation
			r = ed
			if !f.ideal && !(f.pow2Vals[x.S] && f.pow2Vals[y.S]) {
				f.oblige("X", fmt.Sprintf("X/scale-exact@%s", f.insID(ins)), T(SBool, "(or (= %s 0.0) (and (>= (rabs %s) (/ 1.0 %s.0)) (<= (rabs %s) %s.0)))", ed.S, ed.S, pow2Str(1022), ed.S, pow2Str(1023)), pos, "power-of-two scaling stays in the normal float64 range (no underflow/overflow), hence exact")
			}
			if f.pow2Vals[x.S] && f.pow2Vals[y.S] {
				f.pow2Vals[r.S] = true
			}
		} else {
			r = f.rounded(ins.Name(), ed)
		}
		f.setVal(ins, r)
		return
	}
	if x.Sort.Kind != KInt {
		f.fail("binary operator %s on %s", ins.Op, x.Sort)
	}
	var t Term
	switch ins.Op {
	case token.ADD:
		t = arith("+", x, y)
	case token.SUB:
		t = arith("-", x, y)
	case token.MUL:
		t = arith("*", x, y)
	case token.QUO:
		f.oblige("S", fmt.Sprintf("S/div@%s", f.insID(ins)), T(SBool, "(not (= %s 0))", y.S), pos, "integer division by zero")
		if isUnsigned(ins.Type()) {
			t = T(SInt, "(div %s %s)", x.S, y.S)
		} else {
			t = T(SInt, "(tdiv %s %s)", x.S, y.S)
		}
	case token.REM:
		f.oblige("S", fmt.Sprintf("S/rem@%s", f.insID(ins)), T(SBool, "(not (= %s 0))", y.S), pos, "integer remainder by zero")
		if isUnsigned(ins.Type()) {
			t = T(SInt, "(mod %s %s)", x.S, y.S)
		} else {
			t = T(SInt, "(tmod %s %s)", x.S, y.S)
		}
	case token.SHL:
		// Go panics on a negative shift count only; counts >= 64 give 0
		if !isUnsigned(ins.Y.Type()) {
			f.oblige("S", fmt.Sprintf("S/shl@%s", f.insID(ins)), T(SBool, "(<= 0 %s)", y.S), pos, "shift count non-negative")
		}
		if isIntLiteral(y.S) {
			t = T(SInt, "(* %s (pow2 %s))", x.S, y.S)
		} else {
			t = T(SInt, "(ite (>= %s 64) 0 (* %s (pow2 %s)))", y.S, x.S, y.S)
		}
	case token.SHR:
		if !isUnsigned(ins.Y.Type()) {
			f.oblige("S", fmt.Sprintf("S/shr@%s", f.insID(ins)), T(SBool, "(<= 0 %s)", y.S), pos, "shift count non-negative")
		}
		if isIntLiteral(y.S) {
			t = T(SInt, "(div %s (pow2 %s))", x.S, y.S)
		} else {
			t = T(SInt, "(ite (>= %s 64) (ite (< %s 0) (- 1) 0) (div %s (pow2 %s)))", y.S, x.S, x.S, y.S)
		}
	default:
		f.fail("integer operator %s", ins.Op)
	}
	d := f.define(ins.Name(), t)
	f.setVal(ins, d)
	switch ins.Op {
	case token.ADD, token.SUB, token.MUL, token.SHL:
		f.overflow(ins, d, pos)
	case token.QUO:
		// MinInt64 / -1 overflows
		f.overflow(ins, d, pos)
	}
}

func (f *fctx) nearestPos(ins ssa.Instruction) token.Pos {
	b := ins.Block()
	best := token.NoPos
	for _, x := range b.Instrs {
		if x.Pos() != token.NoPos {
			best = x.Pos()
		}
		if x == ins && best != token.NoPos {
			return best
		}
	}
	if best == token.NoPos {
		return f.fn.Pos()
	}
	return best
}

func (f *fctx) unop(ins *ssa.UnOp) {
	switch ins.Op {
	case token.MUL: // load
		if p := f.place(ins.X); p != nil {
			t := f.load(p)
			f.defVal(ins, t)
			return
		}
		// pointer to struct held as a reference: load whole struct
		ref := f.val(ins.X)
		pt := ins.X.Type().Underlying().(*types.Pointer)
		st := pt.Elem().Underlying().(*types.Struct)
		ss := f.vc.structSortOf(pt.Elem(), st)
		f.oblige("S", fmt.Sprintf("S/nil-deref@%s", f.insID(ins)), T(SBool, "(not (= %s 0))", ref.S), ins.Pos(), "nil pointer dereference")
		f.defVal(ins, f.loadStruct(ref, ss, pt.Elem()))
	case token.SUB:
		x := f.val(ins.X)
		if x.Sort.Kind == KReal {
			f.defVal(ins, T(SReal, "(- %s)", x.S))
			return
		}
		d := f.define(ins.Name(), T(SInt, "(- %s)", x.S))
		f.setVal(ins, d)
		f.overflow(ins, d, ins.Pos())
	case token.NOT:
		f.defVal(ins, Not(f.val(ins.X)))
	default:
		f.fail("unary operator %s", ins.Op)
	}
}

func (f *fctx) convert(ins *ssa.Convert) {
	x := f.val(ins.X)
	from, to := ins.X.Type(), ins.Type()
	switch {
	case isInteger(from) && isInteger(to):
		lo, hi, _ := intRange(to)
		flo, fhi, _ := intRange(from)
		if lo != flo || hi != fhi {
			f.oblige("O", fmt.Sprintf("O/conv@%s", f.insID(ins)), T(SBool, "(and (<= %s %s) (<= %s %s))", lo, x.S, x.S, hi), ins.Pos(), "integer conversion keeps the value")
		}
		x.Ty = to
		f.vals[ins] = x
	case isInteger(from) && isFloat(to):
		if f.ideal {
			f.defVal(ins, toReal(x))
		} else {
			f.defVal(ins, T(SReal, "(i2f %s)", x.S))
		}
	case isFloat(from) && isInteger(to):
		lo, hi, _ := intRange(to)
		t := f.define(ins.Name(), T(SInt, "(trunc %s)", x.S))
		goal := T(SBool, "(and (<= %s %s) (<= %s %s))", lo, t.S, t.S, hi)
		desc := "float to integer conversion in range (out of range is implementation-defined, not a panic)"
		if f.validTerm != nil {
			goal = Implies(*f.validTerm, goal)
			desc += " (for inputs satisfying the contract's valid clause)"
		}
		if f.con == nil || !f.con.NoOverflow {
			f.oblige("O", fmt.Sprintf("O/f2i@%s", f.insID(ins)), goal, ins.Pos(), desc)
		}
		f.setVal(ins, t)
	case isFloat(from) && isFloat(to):
		x.Ty = to
		f.vals[ins] = x
	default:
		f.fail("conversion %s -> %s", from, to)
	}
}

func (f *fctx) alloc(ins *ssa.Alloc) {
	elem := ins.Type().(*types.Pointer).Elem()
	if st, ok := elem.Underlying().(*types.Struct); ok {
		ss := f.vc.structSortOf(elem, st)
		ref := f.newRef(ins.Name())
		ref.Ty = ins.Type()
		f.zeroStruct(ref, ss)
		f.vals[ins] = ref
		return
	}
	s := f.vc.sortOf(elem)
	key := "C$" + f.pfx + ins.Name()
	f.cur.cells[key] = ZeroOf(s)
	f.places[ins] = &Place{Kind: PCell, Key: key, Sort: s, Ty: elem}
}

func (f *fctx) fieldAddr(ins *ssa.FieldAddr) {
	pt := ins.X.Type().Underlying().(*types.Pointer)
	st := pt.Elem().Underlying().(*types.Struct)
	ss := f.vc.structSortOf(pt.Elem(), st)
	fl := ss.Fields[ins.Field]
	if p := f.place(ins.X); p != nil {
		f.fail("field of a struct stored in a local cell")
	}
	ref := f.val(ins.X)
	f.oblige("S", fmt.Sprintf("S/nil-field@%s", f.insID(ins)), T(SBool, "(not (= %s 0))", ref.S), ins.Pos(), "nil pointer dereference")
	f.places[ins] = &Place{Kind: PField, Ref: ref, HKey: "H$" + ss.Name + "$" + fl.Name, Sort: fl.Sort, Ty: st.Field(ins.Field).Type()}
}

func (f *fctx) indexAddr(ins *ssa.IndexAddr) {
	i := f.val(ins.Index)
	switch xt := ins.X.Type().Underlying().(type) {
	case *types.Slice:
		s := f.val(ins.X)
		f.oblige("S", fmt.Sprintf("S/index@%s", f.insID(ins)), T(SBool, "(and (<= 0 %s) (< %s (seq.len %s)))", i.S, i.S, s.S), ins.Pos(), "slice index in range")
		if _, isConst := ins.Index.(*ssa.Const); isConst {
			if f.vc.orderTaint == nil {
				f.vc.OrderCheck()
			}
			if f.vc.orderTaint[f.fn][ins.X] {
				f.oblige("D", fmt.Sprintf("D/order@%s", f.insID(ins)), T(SBool, "(<= (seq.len %s) 1)", s.S), ins.Pos(), "constant index into a slice whose order comes from map iteration: at most one element")
			}
		}
		f.places[ins] = &Place{Kind: PSliceElem, Seq: s, Index: i, Sort: s.Sort.Elem, Ty: xt.Elem()}
	case *types.Pointer:
		arr := xt.Elem().Underlying().(*types.Array)
		base := f.place(ins.X)
		if base == nil {
			f.fail("index of array behind a reference")
		}
		f.oblige("S", fmt.Sprintf("S/index@%s", f.insID(ins)), T(SBool, "(and (<= 0 %s) (< %s %d))", i.S, i.S, arr.Len()), ins.Pos(), "array index in range")
		f.places[ins] = &Place{Kind: PElem, Base: base, Index: i, Sort: f.vc.sortOf(arr.Elem()), Ty: arr.Elem()}
	default:
		f.fail("IndexAddr on %s", ins.X.Type())
	}
}

func (f *fctx) storeInstr(ins *ssa.Store) {
	v := f.val(ins.Val)
	if v.Sort.Kind == KFunc {
		f.fail("store of a function value")
	}
	if _, isMap := ins.Val.Type().Underlying().(*types.Map); isMap {
		f.fail("store of a map reference (map aliasing is not modelled)")
	}
	if p := f.place(ins.Addr); p != nil {
		f.store(p, v)
		return
	}
	// whole-struct store through a reference
	ref := f.val(ins.Addr)
	pt := ins.Addr.Type().Underlying().(*types.Pointer)
	st := pt.Elem().Underlying().(*types.Struct)
	ss := f.vc.structSortOf(pt.Elem(), st)
	f.oblige("S", fmt.Sprintf("S/nil-store@%s", f.insID(ins)), T(SBool, "(not (= %s 0))", ref.S), ins.Pos(), "nil pointer dereference")
	f.storeStruct(ref, ss, v)
}

func (f *fctx) sliceInstr(ins *ssa.Slice) {
	switch xt := ins.X.Type().Underlying().(type) {
	case *types.Pointer:
		arr := xt.Elem().Underlying().(*types.Array)
		base := f.place(ins.X)
		if base == nil {
			f.fail("slice of array behind a reference")
		}
		if ins.Low != nil || ins.Max != nil {
			f.fail("partial slice of an array")
		}
		n := arr.Len()
		if ins.High != nil {
			c, ok := ins.High.(*ssa.Const)
			if !ok {
				f.fail("partial slice of an array")
			}
			n = c.Int64()
			if n < 0 || n > arr.Len() {
				f.fail("slice bound out of range")
			}
		}
		a := f.load(base)
		s := f.vc.sortOf(ins.Type())
		f.defVal(ins, Term{S: fmt.Sprintf("(%s %d %s)", mkseqOf(s), n, a.S), Sort: s})
		f.constLen[f.vals[ins].S] = int(n)
	case *types.Slice:
		x := f.val(ins.X)
		lo := IntLit(0)
		hi := T(SInt, "(seq.len %s)", x.S)
		if ins.Low != nil {
			lo = f.val(ins.Low)
		}
		if ins.High != nil {
			hi = f.val(ins.High)
		}
		if ins.Max != nil {
			// s[lo:hi:max] has the elements of s[lo:hi]; capacity is not modelled, so the bound max <= cap(s) is
			// checked conservatively as max <= len(s)
			mx := f.val(ins.Max)
			f.oblige("S", fmt.Sprintf("S/slice-max@%s", f.insID(ins)), T(SBool, "(and (<= %s %s) (<= %s (seq.len %s)))", hi.S, mx.S, mx.S, x.S), ins.Pos(), "3-index slice: high <= max <= len (cap not modelled)")
		}
		f.oblige("S", fmt.Sprintf("S/slice@%s", f.insID(ins)), T(SBool, "(and (<= 0 %s) (<= %s %s) (<= %s (seq.len %s)))", lo.S, lo.S, hi.S, hi.S, x.S), ins.Pos(), "slice bounds in range (len; cap not modelled)")
		if lo.S == "0" {
			f.defVal(ins, Term{S: fmt.Sprintf("(%s %s (seq.el %s))", mkseqOf(x.Sort), hi.S, x.S), Sort: x.Sort})
		} else {
			r := f.declare(ins.Name(), x.Sort)
			f.assume(T(SBool, "(= (seq.len %s) (- %s %s))", r.S, hi.S, lo.S))
			f.assume(T(SBool, "(forall ((q!k Int)) (! (=> (and (<= 0 q!k) (< q!k (seq.len %s))) (= (select (seq.el %s) q!k) (select (seq.el %s) (+ q!k %s)))) :pattern ((select (seq.el %s) q!k))))", r.S, r.S, x.S, lo.S, r.S))
			f.setVal(ins, r)
		}
	default:
		f.fail("slice of %s", ins.X.Type())
	}
}

func (f *fctx) mapState(m ssa.Value) (string, Term) {
	key, ok := f.mapKey[m]
	if !ok {
		f.fail("map %s is not a local make(map) value (map aliasing is not modelled)", m.Name())
	}
	return key, f.cur.cells[key]
}

func (f *fctx) mapUpdate(ins *ssa.MapUpdate) {
	key, m := f.mapState(ins.Map)
	k, v := f.val(ins.Key), f.val(ins.Value)
	nm := T(m.Sort, "(%s (store (map.dom %s) %s true) (store (map.val %s) %s %s) (ite (select (map.dom %s) %s) (map.size %s) (+ (map.size %s) 1)))",
		mkmapOf(m.Sort), m.S, k.S, m.S, k.S, v.S, m.S, k.S, m.S, m.S)
	f.cur.cells[key] = f.define("map", nm)
}

func (f *fctx) lookup(ins *ssa.Lookup) {
	if _, ok := ins.X.Type().Underlying().(*types.Map); !ok {
		f.fail("string indexing")
	}
	_, m := f.mapState(ins.X)
	k := f.val(ins.Index)
	has := T(SBool, "(select (map.dom %s) %s)", m.S, k.S)
	v := Ite(has, T(m.Sort.Elem, "(select (map.val %s) %s)", m.S, k.S), ZeroOf(m.Sort.Elem))
	if ins.CommaOk {
		f.tuples[ins] = []Term{f.define(ins.Name()+"v", v), f.define(ins.Name()+"ok", has)}
		f.vals[ins] = Term{S: "tuple", Sort: &Sort{Kind: KTuple}}
		return
	}
	f.defVal(ins, v)
}

func (f *fctx) rangeInstr(ins *ssa.Range) {
	if _, ok := ins.X.Type().Underlying().(*types.Map); !ok {
		f.fail("range over string")
	}
	var m Term
	if key, ok := f.mapKey[ins.X]; ok {
		m = f.cur.cells[key]
	} else {
		m = f.val(ins.X) // read-only map value (parameter / field)
		if !strings.HasPrefix(m.S, "(") && strings.HasPrefix(m.S, "map:") {
			f.fail("range over unknown map")
		}
	}
	ms := f.define("rng", m)
	ks := f.uniq("ks")
	inv := f.uniq("ksinv")
	f.sc.emit("(declare-fun %s (Int) %s)", ks, m.Sort.Key.SMT())
	f.sc.emit("(declare-fun %s (%s) Int)", inv, m.Sort.Key.SMT())
	// iteration order: an arbitrary bijection between [0,size) and the key set
	f.assume(T(SBool, "(forall ((q!i Int)) (! (=> (and (<= 0 q!i) (< q!i (map.size %s))) (and (select (map.dom %s) (%s q!i)) (= (%s (%s q!i)) q!i))) :pattern ((%s q!i))))", ms.S, ms.S, ks, inv, ks, ks))
	f.assume(T(SBool, "(forall ((q!k %s)) (! (=> (select (map.dom %s) q!k) (and (<= 0 (%s q!k)) (< (%s q!k) (map.size %s)) (= (%s (%s q!k)) q!k))) :pattern ((%s q!k)) :pattern ((select (map.dom %s) q!k))))", m.Sort.Key.SMT(), ms.S, inv, inv, ms.S, ks, inv, inv, ms.S))
	f.assume(T(SBool, "(>= (map.size %s) 0)", ms.S))
	iterKey := "iter$" + f.pfx + ins.Name()
	f.cur.cells[iterKey] = IntLit(0)
	f.ranges[ins] = &rangeInfo{isMap: true, mapTerm: ms, ks: ks, inv: inv, iterKey: iterKey, keySort: m.Sort.Key, valSort: m.Sort.Elem}
	f.vals[ins] = Term{S: "range:" + ins.Name(), Sort: SFunc}
}

func (f *fctx) next(ins *ssa.Next) {
	ri, ok := f.ranges[ins.Iter]
	if !ok {
		f.fail("next on unknown iterator")
	}
	n := f.cur.cells[ri.iterKey]
	okT := f.define(ins.Name()+"ok", T(SBool, "(< %s (map.size %s))", n.S, ri.mapTerm.S))
	k := f.define(ins.Name()+"k", T(ri.keySort, "(%s %s)", ri.ks, n.S))
	v := f.define(ins.Name()+"v", T(ri.valSort, "(select (map.val %s) %s)", ri.mapTerm.S, k.S))
	f.cur.cells[ri.iterKey] = f.define("it", Ite(okT, T(SInt, "(+ %s 1)", n.S), n))
	f.tuples[ins] = []Term{okT, k, v}
	f.vals[ins] = Term{S: "tuple", Sort: &Sort{Kind: KTuple}}
}
