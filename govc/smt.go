package main

import (
	"fmt"
	"go/types"
	"math/big"
	"strings"
)

// ---------------------------------------------------------------- sorts

type SortKind int

const (
	KInt SortKind = iota
	KBool
	KReal
	KStr
	KAtom
	KSeq
	KMap
	KArr    // fixed Go array [N]T, modelled as (Array Int T)
	KStruct // by-value struct (datatype)
	KAny    // opaque interface value
	KTuple  // multi-value result (never printed)
	KFunc   // function value (never printed)
)

type Sort struct {
	Kind   SortKind
	Elem   *Sort  // Seq, Arr, Map value
	Key    *Sort  // Map
	Name   string // struct datatype name
	Fields []Field
	Tuple  []*Sort
}

type Field struct {
	Name string
	Sort *Sort
}

var (
	SInt  = &Sort{Kind: KInt}
	SBool = &Sort{Kind: KBool}
	SReal = &Sort{Kind: KReal}
	SStr  = &Sort{Kind: KStr}
	SAtom = &Sort{Kind: KAtom}
	SAny  = &Sort{Kind: KAny}
	SFunc = &Sort{Kind: KFunc}
)

func SeqOf(e *Sort) *Sort { return &Sort{Kind: KSeq, Elem: e} }
func ArrOf(e *Sort) *Sort { return &Sort{Kind: KArr, Elem: e} }

// MemberAxioms: the trigger-friendly definition of the membership predicate seq.in.<S> used by the spec
// function member(e, s); added to a script only when it mentions the predicate.
func MemberAxioms() map[string]string {
	out := map[string]string{}
	for _, srt := range []string{"Int", "Str", "Any"} {
		p := "seq.in." + srt
		out[p] = fmt.Sprintf("(assert (forall ((q!s (GSeq %[1]s)) (q!e %[1]s)) (! (=> (%[2]s q!s q!e) (exists ((q!k Int)) (and (<= 0 q!k) (< q!k (seq.len q!s)) (= (select (seq.el q!s) q!k) q!e)))) :pattern ((%[2]s q!s q!e)))))\n"+
			"(assert (forall ((q!s (GSeq %[1]s)) (q!k Int)) (! (=> (and (<= 0 q!k) (< q!k (seq.len q!s))) (%[2]s q!s (select (seq.el q!s) q!k))) :pattern ((select (seq.el q!s) q!k)))))\n", srt, p)
	}
	return out
}

func MapOf(k, v *Sort) *Sort { return &Sort{Kind: KMap, Key: k, Elem: v} }

// ArrKV: an SMT array with an arbitrary index sort (ghost relations)
func ArrKV(k, v *Sort) *Sort { return &Sort{Kind: KArr, Key: k, Elem: v} }

func (s *Sort) SMT() string {
	switch s.Kind {
	case KInt:
		return "Int"
	case KBool:
		return "Bool"
	case KReal:
		return "Real"
	case KStr:
		return "Str"
	case KAtom:
		return "Atom"
	case KAny:
		return "Any"
	case KSeq:
		return "(GSeq " + s.Elem.SMT() + ")"
	case KArr:
		if s.Key != nil {
			return "(Array " + s.Key.SMT() + " " + s.Elem.SMT() + ")"
		}
		return "(Array Int " + s.Elem.SMT() + ")"
	case KMap:
		return "(GMap " + s.Key.SMT() + " " + s.Elem.SMT() + ")"
	case KStruct:
		return s.Name
	}
	panic("unprintable sort")
}

func (s *Sort) Eq(o *Sort) bool {
	if s == nil || o == nil {
		return s == o
	}
	if s.Kind != o.Kind {
		return false
	}
	switch s.Kind {
	case KArr:
		if (s.Key == nil) != (o.Key == nil) || (s.Key != nil && !s.Key.Eq(o.Key)) {
			return false
		}
		return s.Elem.Eq(o.Elem)
	case KSeq:
		return s.Elem.Eq(o.Elem)
	case KMap:
		return s.Key.Eq(o.Key) && s.Elem.Eq(o.Elem)
	case KStruct:
		return s.Name == o.Name
	}
	return true
}

func (s *Sort) String() string {
	if s == nil {
		return "<nil>"
	}
	if s.Kind == KTuple {
		return "tuple"
	}
	if s.Kind == KFunc {
		return "func"
	}
	return s.SMT()
}

// ---------------------------------------------------------------- terms

type Term struct {
	S    string
	Sort *Sort
	Ty   types.Type // Go type when known (used for field selection on references)
}

func T(sort *Sort, format string, args ...interface{}) Term {
	return Term{S: fmt.Sprintf(format, args...), Sort: sort}
}

func IntLit(n int64) Term {
	if n < 0 {
		return Term{S: fmt.Sprintf("(- %d)", -big.NewInt(n).Int64()), Sort: SInt}
	}
	return Term{S: fmt.Sprintf("%d", n), Sort: SInt}
}

func BigLit(n *big.Int) Term {
	if n.Sign() < 0 {
		return Term{S: "(- " + new(big.Int).Neg(n).String() + ")", Sort: SInt}
	}
	return Term{S: n.String(), Sort: SInt}
}

func RatLit(r *big.Rat) Term {
	neg := r.Sign() < 0
	a := new(big.Rat).Abs(r)
	var s string
	if a.IsInt() {
		s = a.Num().String() + ".0"
	} else {
		s = "(/ " + a.Num().String() + ".0 " + a.Denom().String() + ".0)"
	}
	if neg {
		s = "(- " + s + ")"
	}
	return Term{S: s, Sort: SReal}
}

func BoolLit(b bool) Term {
	if b {
		return Term{S: "true", Sort: SBool}
	}
	return Term{S: "false", Sort: SBool}
}

func And(ts ...Term) Term {
	var parts []string
	for _, t := range ts {
		if t.S == "true" {
			continue
		}
		if t.S == "false" {
			return BoolLit(false)
		}
		parts = append(parts, t.S)
	}
	switch len(parts) {
	case 0:
		return BoolLit(true)
	case 1:
		return Term{S: parts[0], Sort: SBool}
	}
	return Term{S: "(and " + strings.Join(parts, " ") + ")", Sort: SBool}
}

func Or(ts ...Term) Term {
	var parts []string
	for _, t := range ts {
		if t.S == "false" {
			continue
		}
		if t.S == "true" {
			return BoolLit(true)
		}
		parts = append(parts, t.S)
	}
	switch len(parts) {
	case 0:
		return BoolLit(false)
	case 1:
		return Term{S: parts[0], Sort: SBool}
	}
	return Term{S: "(or " + strings.Join(parts, " ") + ")", Sort: SBool}
}

func Not(t Term) Term {
	if t.S == "true" {
		return BoolLit(false)
	}
	if t.S == "false" {
		return BoolLit(true)
	}
	return Term{S: "(not " + t.S + ")", Sort: SBool}
}

func Implies(a, b Term) Term {
	if a.S == "true" {
		return b
	}
	if a.S == "false" || b.S == "true" {
		return BoolLit(true)
	}
	return Term{S: "(=> " + a.S + " " + b.S + ")", Sort: SBool}
}

func Ite(c, a, b Term) Term {
	if c.S == "true" {
		return a
	}
	if c.S == "false" {
		return b
	}
	if a.S == b.S {
		return a
	}
	return Term{S: "(ite " + c.S + " " + a.S + " " + b.S + ")", Sort: a.Sort}
}

func EqT(a, b Term) Term {
	if a.S == b.S {
		return BoolLit(true)
	}
	return Term{S: "(= " + a.S + " " + b.S + ")", Sort: SBool}
}

// toReal coerces Int terms to Real when mixing.
func toReal(t Term) Term {
	if t.Sort.Kind == KReal {
		return t
	}
	if t.Sort.Kind == KInt {
		// literal?
		if isIntLiteral(t.S) {
			if strings.HasPrefix(t.S, "(- ") {
				return Term{S: "(- " + strings.TrimSuffix(strings.TrimPrefix(t.S, "(- "), ")") + ".0)", Sort: SReal}
			}
			return Term{S: t.S + ".0", Sort: SReal}
		}
		return Term{S: "(to_real " + t.S + ")", Sort: SReal}
	}
	panic("toReal on " + t.Sort.String())
}

func isIntLiteral(s string) bool {
	if strings.HasPrefix(s, "(- ") && strings.HasSuffix(s, ")") {
		s = s[3 : len(s)-1]
	}
	if s == "" {
		return false
	}
	for _, c := range s {
		if c < '0' || c > '9' {
			return false
		}
	}
	return true
}

func mkseqOf(s *Sort) string { return "(as mkseq " + s.SMT() + ")" }
func mkmapOf(s *Sort) string { return "(as mkmap " + s.SMT() + ")" }

// zero value of a sort
func ZeroOf(s *Sort) Term {
	switch s.Kind {
	case KInt:
		return IntLit(0)
	case KBool:
		return BoolLit(false)
	case KReal:
		return Term{S: "0.0", Sort: SReal}
	case KStr:
		return Term{S: "str.empty", Sort: SStr}
	case KSeq:
		return Term{S: fmt.Sprintf("(%s 0 ((as const (Array Int %s)) %s))", mkseqOf(s), s.Elem.SMT(), ZeroOf(s.Elem).S), Sort: s}
	case KArr:
		return Term{S: fmt.Sprintf("((as const (Array Int %s)) %s)", s.Elem.SMT(), ZeroOf(s.Elem).S), Sort: s}
	case KMap:
		return Term{S: fmt.Sprintf("(%s ((as const (Array %s Bool)) false) ((as const (Array %s %s)) %s) 0)", mkmapOf(s), s.Key.SMT(), s.Key.SMT(), s.Elem.SMT(), ZeroOf(s.Elem).S), Sort: s}
	case KStruct:
		parts := []string{}
		for _, f := range s.Fields {
			parts = append(parts, ZeroOf(f.Sort).S)
		}
		if len(parts) == 0 {
			return Term{S: "mk_" + s.Name, Sort: s}
		}
		return Term{S: "(mk_" + s.Name + " " + strings.Join(parts, " ") + ")", Sort: s}
	case KAny:
		return Term{S: "any.nil", Sort: SAny}
	}
	panic("no zero for sort " + s.String())
}

// ---------------------------------------------------------------- prelude

const maxPow = 126

func pow2Chain(arg string, max int, real bool) string {
	// nested ite chain
	var sb strings.Builder
	for k := 0; k <= max; k++ {
		v := new(big.Int).Lsh(big.NewInt(1), uint(k)).String()
		if real {
			v += ".0"
		}
		fmt.Fprintf(&sb, "(ite (= %s %d) %s ", arg, k, v)
	}
	if real {
		sb.WriteString("0.0")
	} else {
		sb.WriteString("0")
	}
	sb.WriteString(strings.Repeat(")", max+1))
	return sb.String()
}

func Prelude() string {
	var sb strings.Builder
	sb.WriteString(`(set-option :produce-models true)
(set-logic ALL)
(declare-datatypes ((Atom 0)) (((a.none) (a.num (a.val Int)) (a.alt (a.altval Int) (a.altid Int)) (a.junk (a.jid Int)))))
(declare-sort Tail 0)
(declare-const notail Tail)
(declare-datatypes ((Str 0)) (((mkstr (nf Int) (f0 Atom) (f1 Atom) (f2 Atom) (f3 Atom) (f4 Atom) (f5 Atom) (rest Tail)))))
(declare-sort Any 0)
(declare-const any.nil Any)
(declare-datatypes ((GSeq 1)) ((par (T) ((mkseq (seq.len Int) (seq.el (Array Int T)))))))
(declare-datatypes ((GMap 2)) ((par (K V) ((mkmap (map.dom (Array K Bool)) (map.val (Array K V)) (map.size Int))))))
(define-fun a.empty () Atom (a.junk 0))
(define-fun str.empty () Str (mkstr 1 a.empty a.none a.none a.none a.none a.none notail))
(define-fun str1 ((a Atom)) Str (mkstr 1 a a.none a.none a.none a.none a.none notail))
(define-fun str2 ((a Atom) (b Atom)) Str (mkstr 2 a b a.none a.none a.none a.none notail))
(define-fun str3 ((a Atom) (b Atom) (c Atom)) Str (mkstr 3 a b c a.none a.none a.none notail))
(define-fun str4 ((a Atom) (b Atom) (c Atom) (d Atom)) Str (mkstr 4 a b c d a.none a.none notail))
(define-fun str5 ((a Atom) (b Atom) (c Atom) (d Atom) (e Atom)) Str (mkstr 5 a b c d e a.none notail))
(define-fun str6 ((a Atom) (b Atom) (c Atom) (d Atom) (e Atom) (f Atom)) Str (mkstr 6 a b c d e f notail))
(define-fun fld ((s Str) (i Int)) Atom (ite (= i 0) (f0 s) (ite (= i 1) (f1 s) (ite (= i 2) (f2 s) (ite (= i 3) (f3 s) (ite (= i 4) (f4 s) (ite (= i 5) (f5 s) a.none)))))))
(define-fun min64 () Int (- 9223372036854775808))
(define-fun max64 () Int 9223372036854775807)
(define-fun in64 ((x Int)) Bool (and (<= min64 x) (<= x max64)))
(define-fun a.isnum ((a Atom)) Bool (or (and ((_ is a.num) a) (in64 (a.val a))) (and ((_ is a.alt) a) (in64 (a.altval a)))))
(define-fun a.value ((a Atom)) Int (ite ((_ is a.num) a) (a.val a) (ite ((_ is a.alt) a) (a.altval a) 0)))
(define-fun a.ok ((a Atom)) Bool (not (= a a.none)))
(define-fun str.wf ((s Str)) Bool (and (>= (nf s) 1)
  (a.ok (f0 s))
  (= (a.ok (f1 s)) (> (nf s) 1))
  (= (a.ok (f2 s)) (> (nf s) 2))
  (= (a.ok (f3 s)) (> (nf s) 3))
  (= (a.ok (f4 s)) (> (nf s) 4))
  (= (a.ok (f5 s)) (> (nf s) 5))
  (=> (<= (nf s) 6) (= (rest s) notail))))
(define-fun str.isnum ((s Str)) Bool (and (= (nf s) 1) (a.isnum (f0 s))))
(define-fun str.val ((s Str)) Int (a.value (f0 s)))
(define-fun str.fmt ((v Int)) Str (str1 (a.num v)))
(declare-fun a.cat (Atom Atom) Atom)
(define-fun acat ((a Atom) (b Atom)) Atom (ite (= a a.empty) b (ite (= b a.empty) a (a.cat a b))))
(declare-fun tail.cat (Str Str) Tail)
(declare-fun tail.arr (Tail) (Array Int Str))
(declare-fun seq.in.Int ((GSeq Int) Int) Bool)
(declare-fun seq.in.Str ((GSeq Str) Str) Bool)
(declare-fun seq.in.Any ((GSeq Any) Any) Bool)
(declare-fun m.Log (Real) Real)
(declare-fun m.Tan (Real) Real)
(declare-fun m.Cos (Real) Real)
(declare-fun m.Sin (Real) Real)
(declare-fun m.Atan (Real) Real)
(declare-fun m.Sinh (Real) Real)
(declare-fun m.Asinh (Real) Real)
(declare-fun m.Sqrt (Real) Real)
(declare-fun m.Exp (Real) Real)
(declare-fun m.Asin (Real) Real)
(declare-fun m.Acos (Real) Real)
(declare-fun m.Atan2 (Real Real) Real)
`)
	// strcat: generic concatenation (no separator); joins last field of s with first of t.
	// result field j: j < ns-1 -> s_j ; j == ns-1 -> acat(s_last, t_0) ; else t_{j-ns+1}
	sb.WriteString("(define-fun strcat ((s Str) (t Str)) Str (let ((ns (nf s)) (nt (nf t))) (let ((n (- (+ ns nt) 1)) (m (acat (fld s (- ns 1)) (f0 t)))) (mkstr n\n")
	for j := 0; j < 6; j++ {
		fmt.Fprintf(&sb, "  (ite (>= %d n) a.none (ite (< %d (- ns 1)) (fld s %d) (ite (= %d (- ns 1)) m (fld t (- %d (- ns 1))))))\n", j, j, j, j, j)
	}
	sb.WriteString("  (ite (<= n 6) notail (tail.cat s t))))))\n")
	// strjoin2: s + \"/\" + t
	sb.WriteString("(define-fun strjoin ((s Str) (t Str)) Str (let ((ns (nf s)) (nt (nf t))) (let ((n (+ ns nt))) (mkstr n\n")
	for j := 0; j < 6; j++ {
		fmt.Fprintf(&sb, "  (ite (>= %d n) a.none (ite (< %d ns) (fld s %d) (fld t (- %d ns))))\n", j, j, j, j)
	}
	sb.WriteString("  (ite (<= n 6) notail (tail.cat s t))))))\n")
	sb.WriteString("(define-fun str.slash () Str (str2 a.empty a.empty))\n")
	// integer helpers
	sb.WriteString("(define-fun pow2 ((k Int)) Int " + pow2Chain("k", maxPow, false) + ")\n")
	sb.WriteString(`(define-fun fdiv ((a Int) (b Int)) Int (div a b))
(define-fun fmod ((a Int) (b Int)) Int (mod a b))
(define-fun tdiv ((a Int) (b Int)) Int (ite (>= a 0) (ite (> b 0) (div a b) (- (div a (- b)))) (ite (> b 0) (- (div (- a) b)) (div (- a) (- b)))))
(define-fun tmod ((a Int) (b Int)) Int (- a (* b (tdiv a b))))
(define-fun ashift ((i Int) (s Int)) Int (ite (>= s 0) (* i (pow2 s)) (div i (pow2 (- s)))))
(define-fun anc ((i Int) (d Int)) Int (div i (pow2 d)))
(define-fun imin ((a Int) (b Int)) Int (ite (<= a b) a b))
(define-fun imax ((a Int) (b Int)) Int (ite (>= a b) a b))
(define-fun iabs ((a Int)) Int (ite (>= a 0) a (- a)))
(define-fun rabs ((a Real)) Real (ite (>= a 0.0) a (- a)))
(define-fun rmin ((a Real) (b Real)) Real (ite (<= a b) a b))
(define-fun rmax ((a Real) (b Real)) Real (ite (>= a b) a b))
(define-fun floor ((r Real)) Int (to_int r))
(define-fun ceil ((r Real)) Int (- (to_int (- r))))
(define-fun trunc ((r Real)) Int (ite (>= r 0.0) (to_int r) (- (to_int (- r)))))
(declare-fun rnd.i2f (Int) Real)
(define-fun i2f ((x Int)) Real (ite (<= (iabs x) 9007199254740992) (to_real x) (rnd.i2f x)))
(declare-fun u.pow (Real Real) Real)
(define-fun rpow2 ((k Int)) Real (ite (>= k 0) (to_real (pow2 k)) (/ 1.0 (to_real (pow2 (- k))))))
(define-fun rpow10 ((k Int)) Real (ite (= k 0) 1.0 (ite (= k 1) 10.0 (ite (= k 2) 100.0 (ite (= k 3) 1000.0 (ite (= k 4) 10000.0 (ite (= k 5) 100000.0 (ite (= k 6) 1000000.0 (ite (= k 7) 10000000.0 (ite (= k 8) 100000000.0 (ite (= k 9) 1000000000.0 (ite (= k 10) 10000000000.0 (ite (= k 11) 100000000000.0 (ite (= k 12) 1000000000000.0 0.0))))))))))))))
(define-fun f.pow ((b Real) (y Real)) Real (ite (and (= b 2.0) (is_int y) (<= (- 126.0) y) (<= y 126.0)) (rpow2 (to_int y)) (ite (and (= b 10.0) (is_int y) (<= 0.0 y) (<= y 12.0)) (rpow10 (to_int y)) (u.pow b y))))
(declare-fun u.mod (Real Real) Real)
(define-fun f.mod ((a Real) (b Real)) Real (ite (and (is_int a) (is_int b) (> b 0.0) (< (rabs a) 9007199254740992.0) (< b 9007199254740992.0)) (to_real (tmod (to_int a) (to_int b))) (u.mod a b)))
`)
	return sb.String()
}
