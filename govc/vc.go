package main

import (
	"fmt"
	"go/token"
	"go/types"
	"sort"
	"strings"

	"golang.org/x/tools/go/packages"
	"golang.org/x/tools/go/ssa"
	"golang.org/x/tools/go/ssa/ssautil"
)

// VC holds the loaded program and global translation tables.
type VC struct {
	repo    string
	modPath string
	prog    *ssa.Program
	fset    *token.FileSet
	pkgs    map[string]*ssa.Package // by directory relative to repo root
	pkgDir  map[*ssa.Package]string
	cs      *ContractSet

	structSorts map[string]*Sort
	structOrder []string
	heapSorts   map[string]*Sort // heap key -> array sort
	funcsByKey  map[string]*ssa.Function
	effects     map[*ssa.Function]map[string]bool
	effBusy     map[*ssa.Function]bool
	globalInit  map[*ssa.Global]ssa.Value
}

func LoadProgram(repo string) (*VC, error) {
	cfg := &packages.Config{Mode: packages.LoadAllSyntax | packages.NeedModule, Dir: repo, BuildFlags: []string{"-tags=verif"}}
	pkgs, err := packages.Load(cfg, "./...")
	if err != nil {
		return nil, err
	}
	nerr := 0
	packages.Visit(pkgs, nil, func(p *packages.Package) {
		for _, e := range p.Errors {
			fmt.Println("load error:", e)
			nerr++
		}
	})
	if nerr > 0 {
		return nil, fmt.Errorf("%d load errors", nerr)
	}
	prog, spkgs := ssautil.AllPackages(pkgs, ssa.InstantiateGenerics|ssa.GlobalDebug)
	prog.Build()
	vc := &VC{repo: repo, prog: prog, fset: prog.Fset, pkgs: map[string]*ssa.Package{}, pkgDir: map[*ssa.Package]string{},
		structSorts: map[string]*Sort{}, heapSorts: map[string]*Sort{}, funcsByKey: map[string]*ssa.Function{},
		effects: map[*ssa.Function]map[string]bool{}, effBusy: map[*ssa.Function]bool{}, globalInit: map[*ssa.Global]ssa.Value{}}
	for i, p := range pkgs {
		if spkgs[i] == nil {
			continue
		}
		if p.Module != nil && vc.modPath == "" {
			vc.modPath = p.Module.Path
		}
		rel := strings.TrimPrefix(strings.TrimPrefix(p.PkgPath, vc.modPath), "/")
		vc.pkgs[rel] = spkgs[i]
		vc.pkgDir[spkgs[i]] = rel
	}
	// index functions (including methods and generic instances)
	for fn := range ssautil.AllFunctions(prog) {
		if fn.Pkg == nil && fn.Origin() == nil {
			continue
		}
		pkg := fn.Pkg
		if pkg == nil && fn.Origin() != nil {
			pkg = fn.Origin().Pkg
		}
		if pkg == nil {
			continue
		}
		dir, ok := vc.pkgDir[pkg]
		if !ok {
			continue
		}
		vc.funcsByKey[dir+":"+FuncKey(fn)] = fn
	}
	return vc, nil
}

// FuncKey is the name used in contract files for a function.
func FuncKey(fn *ssa.Function) string {
	name := fn.Name()
	if recv := fn.Signature.Recv(); recv != nil {
		t := recv.Type()
		if p, ok := t.(*types.Pointer); ok {
			return "(*" + typeBaseName(p.Elem()) + ")." + name
		}
		return typeBaseName(t) + "." + name
	}
	// generic instance: Name() already like Unique[string]
	return name
}

func typeBaseName(t types.Type) string {
	if n, ok := t.(*types.Named); ok {
		return n.Obj().Name()
	}
	return t.String()
}

func (vc *VC) dirOf(fn *ssa.Function) (string, bool) {
	pkg := fn.Pkg
	if pkg == nil && fn.Origin() != nil {
		pkg = fn.Origin().Pkg
	}
	if pkg == nil && fn.Parent() != nil {
		return vc.dirOf(fn.Parent())
	}
	d, ok := vc.pkgDir[pkg]
	return d, ok
}

func (vc *VC) contractOf(fn *ssa.Function) *Contract {
	if d, ok := vc.dirOf(fn); ok {
		if c := vc.cs.Lookup(d, FuncKey(fn)); c != nil {
			return c
		}
		return nil
	}
	// extern: full name
	full := fn.String()
	if c := vc.cs.Funcs[":"+full]; c != nil {
		return c
	}
	return nil
}

func isErrorType(t types.Type) bool {
	n, ok := t.(*types.Named)
	return ok && n.Obj().Pkg() == nil && n.Obj().Name() == "error"
}

func (vc *VC) structSortOf(t types.Type, st *types.Struct) *Sort {
	name := ""
	if n, ok := t.(*types.Named); ok {
		name = n.Obj().Name()
		if n.Obj().Pkg() != nil {
			name = n.Obj().Pkg().Name() + "_" + name
		}
		if n.TypeArgs() != nil {
			name += fmt.Sprintf("_%d", n.TypeArgs().Len())
		}
	} else {
		if st.NumFields() == 0 {
			name = "Unit"
		} else {
			name = fmt.Sprintf("anon_%d", len(vc.structSorts))
		}
	}
	if s, ok := vc.structSorts[name]; ok {
		return s
	}
	s := &Sort{Kind: KStruct, Name: name}
	vc.structSorts[name] = s
	for i := 0; i < st.NumFields(); i++ {
		f := st.Field(i)
		s.Fields = append(s.Fields, Field{Name: f.Name(), Sort: vc.sortOf(f.Type())})
	}
	vc.structOrder = append(vc.structOrder, name)
	return s
}

func (vc *VC) sortOf(t types.Type) *Sort {
	if isErrorType(t) {
		return SBool
	}
	switch u := t.Underlying().(type) {
	case *types.Basic:
		switch {
		case u.Info()&types.IsInteger != 0:
			return SInt
		case u.Info()&types.IsFloat != 0:
			return SReal
		case u.Info()&types.IsString != 0:
			return SStr
		case u.Info()&types.IsBoolean != 0:
			return SBool
		case u.Kind() == types.UntypedNil:
			return SInt
		}
	case *types.Slice:
		return SeqOf(vc.sortOf(u.Elem()))
	case *types.Array:
		return ArrOf(vc.sortOf(u.Elem()))
	case *types.Map:
		return MapOf(vc.sortOf(u.Key()), vc.sortOf(u.Elem()))
	case *types.Pointer:
		return SInt
	case *types.Struct:
		return vc.structSortOf(t, u)
	case *types.Interface:
		return SAny
	case *types.Signature:
		return SFunc
	case *types.Tuple:
		ts := &Sort{Kind: KTuple}
		for i := 0; i < u.Len(); i++ {
			ts.Tuple = append(ts.Tuple, vc.sortOf(u.At(i).Type()))
		}
		return ts
	case *types.TypeParam:
		return SAny
	}
	panic(unsupported{"type " + t.String()})
}

func (vc *VC) structDecls() string {
	var sb strings.Builder
	for _, name := range vc.structOrder {
		s := vc.structSorts[name]
		fmt.Fprintf(&sb, "(declare-datatypes ((%s 0)) (((mk_%s", name, name)
		for _, f := range s.Fields {
			fmt.Fprintf(&sb, " (%s.%s %s)", name, f.Name, f.Sort.SMT())
		}
		sb.WriteString("))))\n")
	}
	return sb.String()
}

// intRange returns the value range of a Go integer type.
func intRange(t types.Type) (lo, hi string, ok bool) {
	b, isb := t.Underlying().(*types.Basic)
	if !isb || b.Info()&types.IsInteger == 0 {
		return "", "", false
	}
	switch b.Kind() {
	case types.Int, types.Int64, types.UntypedInt:
		return "(- 9223372036854775808)", "9223372036854775807", true
	case types.Int32, types.UntypedRune:
		return "(- 2147483648)", "2147483647", true
	case types.Int16:
		return "(- 32768)", "32767", true
	case types.Int8:
		return "(- 128)", "127", true
	case types.Uint, types.Uint64, types.Uintptr:
		return "0", "18446744073709551615", true
	case types.Uint32:
		return "0", "4294967295", true
	case types.Uint16:
		return "0", "65535", true
	case types.Uint8:
		return "0", "255", true
	}
	return "", "", false
}

type unsupported struct{ what string }

func (vc *VC) position(p token.Pos) string {
	if !p.IsValid() {
		return ""
	}
	pos := vc.fset.Position(p)
	rel := strings.TrimPrefix(pos.Filename, vc.repo+"/")
	return fmt.Sprintf("%s:%d", rel, pos.Line)
}

// --------------------------------------------------------------- effects

// effectsOf computes the set of heap keys a function may write through
// references it did not allocate itself (transitively over repository callees).
func (vc *VC) effectsOf(fn *ssa.Function) map[string]bool {
	if e, ok := vc.effects[fn]; ok {
		return e
	}
	if vc.effBusy[fn] {
		return map[string]bool{}
	}
	vc.effBusy[fn] = true
	eff := map[string]bool{}
	if fn.Blocks == nil {
		vc.effects[fn] = eff
		return eff
	}
	for _, b := range fn.Blocks {
		for _, ins := range b.Instrs {
			switch ins := ins.(type) {
			case *ssa.Store:
				if fa, ok := ins.Addr.(*ssa.FieldAddr); ok {
					if _, local := fa.X.(*ssa.Alloc); local {
						continue // object allocated by this function
					}
					if key, ok := vc.heapKeyOfFieldAddr(fa); ok {
						eff[key] = true
					}
				} else if _, ok := ins.Addr.(*ssa.Alloc); ok {
					continue

					// whole-struct store to an alloc: all fields
					if st, ok := ins.Addr.Type().(*types.Pointer).Elem().Underlying().(*types.Struct); ok {
						ss := vc.structSortOf(ins.Addr.Type().(*types.Pointer).Elem(), st)
						for _, f := range ss.Fields {
							eff["H$"+ss.Name+"$"+f.Name] = true
						}
					}
				} else if _, ok := ins.Addr.(*ssa.IndexAddr); ok {
					// element store: nested place; conservatively resolved by root
					root := rootOfAddr(ins.Addr)
					if fa, ok := root.(*ssa.FieldAddr); ok {
						if _, local := fa.X.(*ssa.Alloc); local {
							continue
						}
						if key, ok := vc.heapKeyOfFieldAddr(fa); ok {
							eff[key] = true
						}
					}
				} else if _, ok := ins.Addr.(*ssa.Global); ok {
					eff["G$"+ins.Addr.Name()] = true
				} else {
					// store through an arbitrary pointer (parameter etc.)
					if st, ok := ins.Addr.Type().(*types.Pointer).Elem().Underlying().(*types.Struct); ok {
						ss := vc.structSortOf(ins.Addr.Type().(*types.Pointer).Elem(), st)
						for _, f := range ss.Fields {
							eff["H$"+ss.Name+"$"+f.Name] = true
						}
					}
				}
			case ssa.CallInstruction:
				if callee := ins.Common().StaticCallee(); callee != nil {
					if _, inRepo := vc.dirOf(callee); inRepo || callee.Parent() != nil {
						for k := range vc.effectsOf(callee) {
							eff[k] = true
						}
					}
				}
			}
		}
	}
	delete(vc.effBusy, fn)
	vc.effects[fn] = eff
	return eff
}

func rootOfAddr(v ssa.Value) ssa.Value {
	for {
		switch x := v.(type) {
		case *ssa.IndexAddr:
			v = x.X
		default:
			return v
		}
	}
}

func (vc *VC) heapKeyOfFieldAddr(fa *ssa.FieldAddr) (string, bool) {
	pt, ok := fa.X.Type().Underlying().(*types.Pointer)
	if !ok {
		return "", false
	}
	st, ok := pt.Elem().Underlying().(*types.Struct)
	if !ok {
		return "", false
	}
	ss := vc.structSortOf(pt.Elem(), st)
	return "H$" + ss.Name + "$" + ss.Fields[fa.Field].Name, true
}

func sortedKeys(m map[string]bool) []string {
	var ks []string
	for k := range m {
		ks = append(ks, k)
	}
	sort.Strings(ks)
	return ks
}
