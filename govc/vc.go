package main

import (
	"fmt"
	"go/token"
	"go/types"
	"sort"
	"strings"

	"golang.org/x/tools/go/packages"
	"golang.org/x/tools/go/ssa"
	"golang.org/x/tools/go/ssa/ssautil"
)

// VC holds the loaded program and global translation tables.
type VC struct {
	repo       string
	modPath    string
	prog       *ssa.Program
	fset       *token.FileSet
	pkgs       map[string]*ssa.Package // by directory relative to repo root
	pkgDir     map[*ssa.Package]string
	cs         *ContractSet
	tier       string
	orderTaint map[*ssa.Function]map[ssa.Value]bool
	pureDecls  map[string]string
	pureFns    map[string]*ssa.Function

	structSorts map[string]*Sort
	structOrder []string
	heapSorts   map[string]*Sort // heap key -> array sort
	funcsByKey  map[string]*ssa.Function
	effects     map[*ssa.Function]map[string]bool
	effVia      map[*ssa.Function]map[string]map[int]bool
	effBusy     map[*ssa.Function]bool
	globalInit  map[*ssa.Global]ssa.Value
}

func LoadProgram(repo string) (*VC, error) {
	cfg := &packages.Config{Mode: packages.LoadAllSyntax | packages.NeedModule, Dir: repo, BuildFlags: []string{"-tags=verif"}}
	pkgs, err := packages.Load(cfg, "./...")
	if err != nil {
		return nil, err
	}
	nerr := 0
	packages.Visit(pkgs, nil, func(p *packages.Package) {
		for _, e := range p.Errors {
			fmt.Println("load error:", e)
			nerr++
		}
	})
	if nerr > 0 {
		return nil, fmt.Errorf("%d load errors", nerr)
	}
	prog, spkgs := ssautil.AllPackages(pkgs, ssa.InstantiateGenerics|ssa.GlobalDebug)
	prog.Build()
	vc := &VC{repo: repo, prog: prog, fset: prog.Fset, pkgs: map[string]*ssa.Package{}, pkgDir: map[*ssa.Package]string{},
		structSorts: map[string]*Sort{}, heapSorts: map[string]*Sort{}, funcsByKey: map[string]*ssa.Function{},
		effects: map[*ssa.Function]map[string]bool{}, effVia: map[*ssa.Function]map[string]map[int]bool{}, pureDecls: map[string]string{}, pureFns: map[string]*ssa.Function{}, effBusy: map[*ssa.Function]bool{}, globalInit: map[*ssa.Global]ssa.Value{}}
	for i, p := range pkgs {
		if spkgs[i] == nil {
			continue
		}
		if p.Module != nil && vc.modPath == "" {
			vc.modPath = p.Module.Path
		}
		rel := strings.TrimPrefix(strings.TrimPrefix(p.PkgPath, vc.modPath), "/")
		vc.pkgs[rel] = spkgs[i]
		vc.pkgDir[spkgs[i]] = rel
	}
	// index functions (including methods and generic instances)
	for fn := range ssautil.AllFunctions(prog) {
		if fn.Pkg == nil && fn.Origin() == nil {
			continue
		}
		pkg := fn.Pkg
		if pkg == nil && fn.Origin() != nil {
			pkg = fn.Origin().Pkg
		}
		if pkg == nil {
			continue
		}
		dir, ok := vc.pkgDir[pkg]
		if !ok {
			continue
		}
		vc.funcsByKey[dir+":"+FuncKey(fn)] = fn
	}
	return vc, nil
}

// FuncKey is the name used in contract files for a function.
func FuncKey(fn *ssa.Function) string {
	name := fn.Name()
	if recv := fn.Signature.Recv(); recv != nil {
		t := recv.Type()
		if p, ok := t.(*types.Pointer); ok {
			return "(*" + typeBaseName(p.Elem()) + ")." + name
		}
		return typeBaseName(t) + "." + name
	}
	// generic instance: Name() already like Unique[string]
	return name
}

func typeBaseName(t types.Type) string {
	if n, ok := t.(*types.Named); ok {
		return n.Obj().Name()
	}
	return t.String()
}

func (vc *VC) dirOf(fn *ssa.Function) (string, bool) {
	pkg := fn.Pkg
	if pkg == nil && fn.Origin() != nil {
		pkg = fn.Origin().Pkg
	}
	if pkg == nil && fn.Parent() != nil {
		return vc.dirOf(fn.Parent())
	}
	d, ok := vc.pkgDir[pkg]
	return d, ok
}

func (vc *VC) contractOf(fn *ssa.Function) *Contract {
	if d, ok := vc.dirOf(fn); ok {
		if c := vc.cs.Lookup(d, FuncKey(fn)); c != nil {
			return c
		}
		if fn.Origin() != nil {
			if c := vc.cs.Lookup(d, FuncKey(fn.Origin())); c != nil {
				return c
			}
		}
		return nil
	}
	// extern: full name
	full := fn.String()
	if c := vc.cs.Funcs[":"+full]; c != nil {
		return c
	}
	return nil
}

// pureApp builds the application of the uninterpreted symbol standing for
// result idx of a pure function; the symbol is declared globally on first use.
func (vc *VC) pureApp(fn *ssa.Function, idx int, args []Term) Term {
	dir, _ := vc.dirOf(fn)
	name := fmt.Sprintf("pf.%s.%s.%d", strings.ReplaceAll(dir, "/", "_"), sanitizeSym(FuncKey(fn)), idx)
	rs := vc.sortOf(fn.Signature.Results().At(idx).Type())
	if _, ok := vc.pureDecls[name]; !ok {
		var as []string
		for _, p := range fn.Params {
			as = append(as, vc.sortOf(p.Type()).SMT())
		}
		vc.pureDecls[name] = fmt.Sprintf("(declare-fun %s (%s) %s)", name, strings.Join(as, " "), rs.SMT())
		vc.pureFns[name] = fn
	}
	var a []string
	for _, t := range args {
		a = append(a, t.S)
	}
	if len(a) == 0 {
		return Term{S: name, Sort: rs}
	}
	return Term{S: "(" + name + " " + strings.Join(a, " ") + ")", Sort: rs}
}

// pureAxioms: the unconditional postconditions of pure single-result functions as
// quantified facts about their symbols (so that contracts mentioning f(args)
// without calling f can use them).
func (vc *VC) pureAxioms() string {
	var sb strings.Builder
	m := vc.pureAxiomsByName()
	var ns []string
	for n := range m {
		ns = append(ns, n)
	}
	sort.Strings(ns)
	for _, n := range ns {
		sb.WriteString(m[n])
	}
	return sb.String()
}

// pureAxiomsByName: symbol name -> its axioms (so that a script only carries the axioms of symbols it mentions).
func (vc *VC) pureAxiomsByName() map[string]string {
	out := map[string]string{}
	vc.pureAxiomsInto(out)
	return out
}

func (vc *VC) pureAxiomsInto(out map[string]string) string {
	var names []string
	for n := range vc.pureFns {
		if strings.HasSuffix(n, ".0") {
			names = append(names, n)
		}
	}
	sort.Strings(names)
	var sb strings.Builder
	for _, n := range names {
		fn := vc.pureFns[n]
		con := vc.contractOf(fn)
		if con == nil || fn.Signature.Results().Len() != 1 {
			continue
		}
		vars := map[string]Term{}
		var binders []string
		var args []Term
		for _, p := range fn.Params {
			s := vc.sortOf(p.Type())
			t := Term{S: "q!" + p.Name(), Sort: s, Ty: p.Type()}
			vars[p.Name()] = t
			args = append(args, t)
			binders = append(binders, "(q!"+p.Name()+" "+s.SMT()+")")
		}
		if len(binders) == 0 {
			continue
		}
		app := vc.pureApp(fn, 0, args)
		vars["r0"] = app
		if rn := fn.Signature.Results().At(0).Name(); rn != "" && rn != "_" {
			vars[rn] = app
		}
		env := &Env{Vars: vars, Defs: vc.cs.Defs, Sorts: vc.typeParamSorts(fn)}
		// the contract was proved for the split ranges only
		guard := BoolLit(true)
		skip := false
		for _, sp := range con.Splits {
			pt, ok := vars[sp.Var]
			if !ok {
				continue // internal case split (loop variable, ghost count): not a condition on the arguments
			}
			if sp.HiVar != "" {
				skip = true
				break
			}
			guard = And(guard, T(SBool, "(and (<= %s %s) (<= %s %s))", IntLit(int64(sp.Lo)).S, pt.S, pt.S, IntLit(int64(sp.Hi)).S))
		}
		// ... and under its precondition only
		for _, c := range con.Requires {
			t, err := ToSMT(c.Expr, env)
			if err != nil || t.Sort.Kind != KBool {
				skip = true
				break
			}
			guard = And(guard, t)
		}
		if skip {
			continue
		}
		for _, c := range con.Ensures {
			t, err := ToSMT(c.Expr, env)
			if err != nil || t.Sort.Kind != KBool {
				continue
			}
			line := fmt.Sprintf("(assert (forall (%s) (! %s :pattern (%s))))\n", strings.Join(binders, " "), Implies(guard, t).S, app.S)
			sb.WriteString(line)
			if out != nil {
				out[n] += line
			}
		}
	}
	return sb.String()
}

func sanitizeSym(s string) string {
	return strings.Map(func(r rune) rune {
		if r == '(' || r == ')' || r == '*' || r == '[' || r == ']' || r == ' ' || r == ',' || r == '/' {
			return '_'
		}
		return r
	}, s)
}

func isErrorType(t types.Type) bool {
	n, ok := t.(*types.Named)
	return ok && n.Obj().Pkg() == nil && n.Obj().Name() == "error"
}

func (vc *VC) structSortOf(t types.Type, st *types.Struct) *Sort {
	name := ""
	if n, ok := t.(*types.Named); ok {
		name = n.Obj().Name()
		if n.Obj().Pkg() != nil {
			name = n.Obj().Pkg().Name() + "_" + name
		}
		if n.TypeArgs() != nil {
			name += fmt.Sprintf("_%d", n.TypeArgs().Len())
		}
	} else {
		if st.NumFields() == 0 {
			name = "Unit"
		} else {
			name = fmt.Sprintf("anon_%d", len(vc.structSorts))
		}
	}
	if s, ok := vc.structSorts[name]; ok {
		return s
	}
	s := &Sort{Kind: KStruct, Name: name}
	vc.structSorts[name] = s
	for i := 0; i < st.NumFields(); i++ {
		f := st.Field(i)
		s.Fields = append(s.Fields, Field{Name: f.Name(), Sort: vc.sortOf(f.Type())})
		structFieldSMT[name+"."+f.Name()] = s.Fields[len(s.Fields)-1].Sort.SMT()
	}
	vc.structOrder = append(vc.structOrder, name)
	return s
}

func (vc *VC) sortOf(t types.Type) *Sort {
	if isErrorType(t) {
		return SBool
	}
	if tp, ok := t.(*types.TypeParam); ok {
		if numericConstraint(tp) {
			return SReal // ordered numeric type parameter: values compared as reals
		}
		return SAny
	}
	switch u := t.Underlying().(type) {
	case *types.Basic:
		switch {
		case u.Info()&types.IsInteger != 0:
			return SInt
		case u.Info()&types.IsFloat != 0:
			return SReal
		case u.Info()&types.IsString != 0:
			return SStr
		case u.Info()&types.IsBoolean != 0:
			return SBool
		case u.Kind() == types.UntypedNil:
			return SInt
		}
	case *types.Slice:
		return SeqOf(vc.sortOf(u.Elem()))
	case *types.Array:
		return ArrOf(vc.sortOf(u.Elem()))
	case *types.Map:
		return MapOf(vc.sortOf(u.Key()), vc.sortOf(u.Elem()))
	case *types.Pointer:
		return SInt
	case *types.Struct:
		return vc.structSortOf(t, u)
	case *types.Interface:
		return SAny
	case *types.Signature:
		return SFunc
	case *types.Tuple:
		ts := &Sort{Kind: KTuple}
		for i := 0; i < u.Len(); i++ {
			ts.Tuple = append(ts.Tuple, vc.sortOf(u.At(i).Type()))
		}
		return ts
	case *types.TypeParam:
		if numericConstraint(u) {
			return SReal // ordered numeric type parameter: values compared as reals
		}
		return SAny
	}
	panic(unsupported{"type " + t.String()})
}

func (vc *VC) structDecls() string {
	var sb strings.Builder
	for _, name := range vc.structOrder {
		s := vc.structSorts[name]
		fmt.Fprintf(&sb, "(declare-datatypes ((%s 0)) (((mk_%s", name, name)
		for _, f := range s.Fields {
			fmt.Fprintf(&sb, " (%s.%s %s)", name, f.Name, f.Sort.SMT())
		}
		sb.WriteString("))))\n")
	}
	return sb.String()
}

// numericConstraint: every type in the constraint's type set is numeric.
func numericConstraint(tp *types.TypeParam) bool {
	iface, ok := tp.Constraint().Underlying().(*types.Interface)
	if !ok || iface.NumEmbeddeds() == 0 {
		return false
	}
	for i := 0; i < iface.NumEmbeddeds(); i++ {
		u, ok := iface.EmbeddedType(i).(*types.Union)
		if !ok {
			return false
		}
		for j := 0; j < u.Len(); j++ {
			b, ok := u.Term(j).Type().Underlying().(*types.Basic)
			if !ok || b.Info()&types.IsNumeric == 0 {
				return false
			}
		}
	}
	return true
}

// intRange returns the value range of a Go integer type.
func intRange(t types.Type) (lo, hi string, ok bool) {
	b, isb := t.Underlying().(*types.Basic)
	if !isb || b.Info()&types.IsInteger == 0 {
		return "", "", false
	}
	switch b.Kind() {
	case types.Int, types.Int64, types.UntypedInt:
		return "(- 9223372036854775808)", "9223372036854775807", true
	case types.Int32, types.UntypedRune:
		return "(- 2147483648)", "2147483647", true
	case types.Int16:
		return "(- 32768)", "32767", true
	case types.Int8:
		return "(- 128)", "127", true
	case types.Uint, types.Uint64, types.Uintptr:
		return "0", "18446744073709551615", true
	case types.Uint32:
		return "0", "4294967295", true
	case types.Uint16:
		return "0", "65535", true
	case types.Uint8:
		return "0", "255", true
	}
	return "", "", false
}

type unsupported struct{ what string }

func (vc *VC) position(p token.Pos) string {
	if !p.IsValid() {
		return ""
	}
	pos := vc.fset.Position(p)
	rel := strings.TrimPrefix(pos.Filename, vc.repo+"/")
	return fmt.Sprintf("%s:%d", rel, pos.Line)
}

// --------------------------------------------------------------- effects

// effectsOf computes the set of heap keys a function may write through
// references it did not allocate itself (transitively over repository
// callees).  Writes are tracked per parameter they go through, so that a
// caller passing a locally allocated object is not charged with the effect.
func (vc *VC) effectsOf(fn *ssa.Function) map[string]bool {
	eff := map[string]bool{}
	for k := range vc.effectsVia(fn) {
		eff[k] = true
	}
	return eff
}

// effectsVia: heap key -> set of parameter indices the written object comes from (-1: unknown origin).
func (vc *VC) effectsVia(fn *ssa.Function) map[string]map[int]bool {
	if e, ok := vc.effVia[fn]; ok {
		return e
	}
	if vc.effBusy[fn] {
		return map[string]map[int]bool{}
	}
	vc.effBusy[fn] = true
	eff := map[string]map[int]bool{}
	add := func(key string, via int) {
		if eff[key] == nil {
			eff[key] = map[int]bool{}
		}
		eff[key][via] = true
	}
	if fn.Blocks == nil {
		delete(vc.effBusy, fn)
		vc.effVia[fn] = eff
		return eff
	}
	// origin of a pointer value: parameter index, -2 local allocation, -1 unknown
	var origin func(v ssa.Value, depth int) int
	origin = func(v ssa.Value, depth int) int {
		if depth > 8 {
			return -1
		}
		switch x := v.(type) {
		case *ssa.Parameter:
			for i, p := range fn.Params {
				if p == x {
					return i
				}
			}
			return -1
		case *ssa.Alloc:
			return -2
		case *ssa.FieldAddr:
			return origin(x.X, depth+1)
		case *ssa.IndexAddr:
			return origin(x.X, depth+1)
		case *ssa.ChangeType:
			return origin(x.X, depth+1)
		case *ssa.Phi:
			res := -2
			for _, e := range x.Edges {
				o := origin(e, depth+1)
				if o == -1 {
					return -1
				}
				if o >= 0 {
					if res >= 0 && res != o {
						return -1
					}
					res = o
				}
			}
			return res
		case *ssa.Call:
			// a fresh object returned by a repository constructor
			if c := x.Call.StaticCallee(); c != nil {
				if con := vc.contractOf(c); con != nil && len(con.Fresh) > 0 {
					return -2
				}
			}
			return -1
		case *ssa.Extract:
			if call, ok := x.Tuple.(*ssa.Call); ok {
				if c := call.Call.StaticCallee(); c != nil && vc.returnsFresh(c, x.Index, 0) {
					return -2
				}
			}
			return -1
		}
		return -1
	}
	structKeys := func(t types.Type) []string {
		pt, ok := t.Underlying().(*types.Pointer)
		if !ok {
			return nil
		}
		st, ok := pt.Elem().Underlying().(*types.Struct)
		if !ok {
			return nil
		}
		ss := vc.structSortOf(pt.Elem(), st)
		var ks []string
		for _, f := range ss.Fields {
			ks = append(ks, "H$"+ss.Name+"$"+f.Name)
		}
		return ks
	}
	for _, b := range fn.Blocks {
		for _, ins := range b.Instrs {
			switch ins := ins.(type) {
			case *ssa.Store:
				if _, ok := ins.Addr.(*ssa.Global); ok {
					add("G$"+ins.Addr.Name(), -1)
					continue
				}
				o := origin(ins.Addr, 0)
				if o == -2 {
					continue
				}
				root := rootOfAddr(ins.Addr)
				if fa, ok := root.(*ssa.FieldAddr); ok {
					if key, ok := vc.heapKeyOfFieldAddr(fa); ok {
						add(key, o)
					}
					continue
				}
				for _, k := range structKeys(ins.Addr.Type()) {
					add(k, o)
				}
			case ssa.CallInstruction:
				callee := ins.Common().StaticCallee()
				if callee == nil {
					continue
				}
				if _, inRepo := vc.dirOf(callee); !inRepo && callee.Parent() == nil {
					continue
				}
				args := ins.Common().Args
				for key, vias := range vc.effectsVia(callee) {
					for via := range vias {
						if via < 0 || via >= len(args) {
							add(key, -1)
							continue
						}
						o := origin(args[via], 0)
						if o == -2 {
							continue
						}
						add(key, o)
					}
				}
			}
		}
	}
	delete(vc.effBusy, fn)
	vc.effVia[fn] = eff
	return eff
}

// returnsFresh: result idx of fn is always a freshly allocated object (or nil).
func (vc *VC) returnsFresh(fn *ssa.Function, idx int, depth int) bool {
	if depth > 3 || fn.Blocks == nil {
		return false
	}
	if _, inRepo := vc.dirOf(fn); !inRepo {
		return false
	}
	for _, b := range fn.Blocks {
		for _, ins := range b.Instrs {
			ret, ok := ins.(*ssa.Return)
			if !ok || idx >= len(ret.Results) {
				continue
			}
			switch r := ret.Results[idx].(type) {
			case *ssa.Alloc:
			case *ssa.Const:
				if r.Value != nil {
					return false
				}
			default:
				return false
			}
		}
	}
	return true
}

func rootOfAddr(v ssa.Value) ssa.Value {
	for {
		switch x := v.(type) {
		case *ssa.IndexAddr:
			v = x.X
		default:
			return v
		}
	}
}

func (vc *VC) heapKeyOfFieldAddr(fa *ssa.FieldAddr) (string, bool) {
	pt, ok := fa.X.Type().Underlying().(*types.Pointer)
	if !ok {
		return "", false
	}
	st, ok := pt.Elem().Underlying().(*types.Struct)
	if !ok {
		return "", false
	}
	ss := vc.structSortOf(pt.Elem(), st)
	return "H$" + ss.Name + "$" + ss.Fields[fa.Field].Name, true
}

func sortedKeys(m map[string]bool) []string {
	var ks []string
	for k := range m {
		ks = append(ks, k)
	}
	sort.Strings(ks)
	return ks
}

// structFieldSMT: "Struct.Field" -> SMT sort of the field (used by the scalarisation pass of solve.go).
var structFieldSMT = map[string]string{}
