package main

import (
	"encoding/json"
	"flag"
	"fmt"
	"os"
	"runtime"
	"sort"
	"strings"
	"time"
)

func main() {
	if len(os.Args) < 2 {
		fmt.Fprintln(os.Stderr, "usage: govc check|dump|frame ...")
		os.Exit(2)
	}
	switch os.Args[1] {
	case "check":
		os.Exit(cmdCheck(os.Args[2:]))
	case "dump":
		os.Exit(cmdDump(os.Args[2:]))
	case "ssa":
		vc, err := LoadProgram("/repo")
		if err != nil {
			fmt.Println(err)
			os.Exit(2)
		}
		var keys []string
		for k := range vc.funcsByKey {
			keys = append(keys, k)
		}
		sort.Strings(keys)
		for _, k := range keys {
			if len(os.Args) > 2 && strings.Contains(k, os.Args[2]) {
				fmt.Println("=====", k)
				vc.funcsByKey[k].WriteTo(os.Stdout)
			}
		}
		os.Exit(0)
	case "replay":
		os.Exit(cmdReplay(os.Args[2:]))
	default:
		fmt.Fprintln(os.Stderr, "unknown command", os.Args[1])
		os.Exit(2)
	}
}

func hasProp(props []string, p string) bool {
	if p == "" || p == "all" {
		return true
	}
	for _, x := range props {
		if x == p {
			return true
		}
	}
	return false
}

type Selected struct {
	Deferred []string // proved in the thorough tier only
	Scripts  []*Script
	Failures []TransFailure
	Funcs    []string
}

type TransFailure struct {
	Func string
	Err  string
}

func (vc *VC) selectScripts(prop, only string) *Selected {
	thorough := vc.tier == "thorough"
	sel := &Selected{}
	var keys []string
	for k := range vc.cs.Funcs {
		keys = append(keys, k)
	}
	sort.Strings(keys)
	for _, k := range keys {
		con := vc.cs.Funcs[k]
		if con.Extern || !hasProp(con.Props, prop) {
			continue
		}
		if only != "" && !strings.Contains(k, only) && !strings.Contains(strings.Replace(k, ":", ".", 1), only) {
			continue
		}
		fn := vc.funcsByKey[k]
		name := strings.Replace(k, ":", ".", 1)
		if fn == nil {
			sel.Failures = append(sel.Failures, TransFailure{name, "contract-detached: no function " + k + " in the current tree"})
			continue
		}
		if con.Trusted {
			continue
		}
		if con.ThoroughOnly && !thorough {
			sel.Deferred = append(sel.Deferred, name)
			continue
		}
		sel.Funcs = append(sel.Funcs, name)
		sc, err := vc.TranslateFunction(fn, con)
		if err != nil {
			sel.Failures = append(sel.Failures, TransFailure{name, err.Error()})
			continue
		}
		sel.Scripts = append(sel.Scripts, sc)
		for _, cc := range con.Cases {
			cname := name + "#" + cc.CaseName
			if len(cc.Props) > 0 && !hasProp(cc.Props, prop) {
				continue // the case is tagged for other properties only
			}
			if cc.ThoroughOnly && !thorough {
				sel.Deferred = append(sel.Deferred, cname)
				continue
			}
			sel.Funcs = append(sel.Funcs, cname)
			csc, err := vc.TranslateFunction(fn, cc)
			if err != nil {
				sel.Failures = append(sel.Failures, TransFailure{cname, err.Error()})
				continue
			}
			sel.Scripts = append(sel.Scripts, csc)
		}
		// instances of a generic function are proved as well
		if fn.TypeParams().Len() > 0 && len(fn.TypeArgs()) == 0 {
			var ikeys []string
			for ik := range vc.funcsByKey {
				if strings.HasPrefix(ik, k+"[") {
					ikeys = append(ikeys, ik)
				}
			}
			sort.Strings(ikeys)
			for _, ik := range ikeys {
				iname := strings.Replace(ik, ":", ".", 1)
				sel.Funcs = append(sel.Funcs, iname)
				isc, err := vc.TranslateFunction(vc.funcsByKey[ik], con)
				if err != nil {
					sel.Failures = append(sel.Failures, TransFailure{iname, err.Error()})
					continue
				}
				sel.Scripts = append(sel.Scripts, isc)
			}
		}
	}
	for _, lem := range vc.cs.Lemmas {
		if !hasProp(lem.Props, prop) {
			continue
		}
		if only != "" && !strings.Contains(lem.Name, only) {
			continue
		}
		if lem.ThoroughOnly && !thorough {
			sel.Deferred = append(sel.Deferred, "lemma "+lem.Name)
			continue
		}
		sel.Funcs = append(sel.Funcs, "lemma "+lem.Name)
		sc, err := vc.TranslateLemma(lem)
		if err != nil {
			sel.Failures = append(sel.Failures, TransFailure{"lemma " + lem.Name, err.Error()})
			continue
		}
		sel.Scripts = append(sel.Scripts, sc)
	}
	return sel
}

func cmdDump(args []string) int {
	fs := flag.NewFlagSet("dump", flag.ExitOnError)
	repo := fs.String("repo", "/repo", "repository")
	only := fs.String("func", "", "function filter")
	prop := fs.String("prop", "all", "property")
	fs.Parse(args)
	vc, err := LoadProgram(*repo)
	if err != nil {
		fmt.Println(err)
		return 2
	}
	vc.cs, err = LoadContracts(*repo)
	if err != nil {
		fmt.Println(err)
		return 2
	}
	sel := vc.selectScripts(*prop, *only)
	for _, f := range sel.Failures {
		fmt.Println("; FAILURE", f.Func, f.Err)
	}
	fmt.Print(Prelude())
	fmt.Print(vc.globalDecls())
	for _, sc := range sel.Scripts {
		fmt.Println("; ======", sc.FuncName)
		var sb strings.Builder
		insts := sc.instances()
		sc.renderInstance(&sb, 0, insts[0], nil, nil, false, false)
		fmt.Print(sb.String())
	}
	return 0
}

func cmdCheck(args []string) int {
	fs := flag.NewFlagSet("check", flag.ExitOnError)
	repo := fs.String("repo", "/repo", "repository")
	verif := fs.String("verif", "/verif", "verification directory")
	prop := fs.String("prop", "", "property id")
	tier := fs.String("tier", "quick", "quick|thorough")
	only := fs.String("func", "", "function filter (debug)")
	verbose := fs.Bool("v", false, "verbose")
	timeout := fs.Int("timeout", 0, "per-obligation solver timeout (ms)")
	noEvidence := fs.Bool("noevidence", false, "do not rewrite the evidence file")
	fs.Parse(args)
	start := time.Now()
	vc, err := LoadProgram(*repo)
	if err != nil {
		fmt.Println("load failed:", err)
		return 2
	}
	vc.cs, err = LoadContracts(*repo)
	if err != nil {
		fmt.Println("contracts:", err)
		return 2
	}
	loadT := time.Since(start)
	vc.tier = *tier
	sel := vc.selectScripts(*prop, *only)
	to := 10000
	if *tier == "thorough" {
		to = 60000
	}
	if *timeout > 0 {
		to = *timeout
	}
	r := &Runner{vc: vc, TimeoutMs: to, Workers: runtime.NumCPU(), Primary: "z3-new", Fallback: []string{"z3", "cvc5"},
		Cross: *tier == "thorough", Tier: *tier, SolverMs: map[string]int64{}, Calls: map[string]int{}}
	results := r.Run(sel.Scripts)
	rep := &Report{VC: vc, Prop: *prop, Tier: *tier, Verif: *verif, Sel: sel, Results: results, Runner: r, Start: start, LoadT: loadT, Verbose: *verbose, NoEvidence: *noEvidence || *only != ""}
	if *only == "" {
		rep.Extra = vc.ExtraFor(*prop, results)
		if rep.Extra == nil {
			rep.Extra = &ExtraChecks{ByKind: map[string]int{}}
		}
		vc.runModelTests(*verif, *prop, rep.Extra)
	}
	return rep.Finish()
}

// cmdReplay re-runs the obligation recorded in a violation file against the
// current tree: the VC is regenerated, the solver consulted again and the
// model (if any) replayed on the real code.
func cmdReplay(args []string) int {
	fs := flag.NewFlagSet("replay", flag.ExitOnError)
	repo := fs.String("repo", "/repo", "repository")
	verif := fs.String("verif", "/verif", "verification directory")
	prop := fs.String("prop", "", "property id")
	file := fs.String("file", "", "violation file")
	fs.Parse(args)
	data, err := os.ReadFile(*file)
	if err != nil {
		fmt.Println(err)
		return 2
	}
	var rec struct {
		Property  string    `json:"property"`
		Violation Violation `json:"violation"`
	}
	if err := json.Unmarshal(data, &rec); err != nil {
		fmt.Println(err)
		return 2
	}
	if *prop == "" {
		*prop = rec.Property
	}
	fn := strings.TrimPrefix(strings.TrimPrefix(rec.Violation.Func, "lemma."), "lemma ")
	fmt.Printf("replaying %s (function filter %q)\n", rec.Violation.Obligation, fn)
	return cmdCheck([]string{"-repo", *repo, "-verif", *verif, "-prop", *prop, "-func", fn, "-noevidence", "-v"})
}

func init() {
	if os.Getenv("GOVC_DEBUG_INST") != "" {
		vc, _ := LoadProgram("/repo")
		vc.cs, _ = LoadContracts("/repo")
		sel := vc.selectScripts("all", os.Getenv("GOVC_DEBUG_INST"))
		fmt.Print(Prelude())
		fmt.Print(vc.globalDecls())
		structs := map[string][]string{}
		for name, ss := range vc.structSorts {
			for _, fl := range ss.Fields {
				structs[name] = append(structs[name], fl.Name)
			}
		}
		for _, sc := range sel.Scripts {
			sc.Structs = structs
			insts := sc.instances()
			var sb strings.Builder
			inst := insts[len(insts)/2]
			if v := os.Getenv("GOVC_DEBUG_VALS"); v != "" {
				inst = nil
				for _, x := range strings.Split(v, ",") {
					var n int
					fmt.Sscanf(x, "%d", &n)
					inst = append(inst, n)
				}
			}
			fmt.Println("; ======", sc.FuncName)
			tr := sc.renderInstance(&sb, 0, inst, nil, nil, false, false)
			fmt.Println(sb.String())
			fmt.Println("; trivial", tr, "of", len(sc.obligations()))
		}
		os.Exit(0)
	}
}

func init() {
	if os.Getenv("GOVC_FRAME_DEBUG") != "" {
		vc, err := LoadProgram("/repo")
		if err != nil {
			fmt.Println(err)
			os.Exit(2)
		}
		vc.cs, _ = LoadContracts("/repo")
		fr := vc.FrameCheck()
		fmt.Println("functions", fr.Functions, "sites", len(fr.Sites), "violations", len(fr.Violations))
		for _, v := range fr.Violations {
			fmt.Println("  F-VIOL", v.fn.String(), vc.position(v.pos), v.what, v.origin)
		}
		n, gv := vc.GlobalWriteScan([]string{"github.com/trajectoryjp/multidimensional-radix-tree", "github.com/trajectoryjp/closest_go", "github.com/trajectoryjp/geodesy_go", "github.com/wroge/wgs84", "github.com/go-gl/mathgl", "gonum.org/v1/gonum/spatial/r3"})
		fmt.Println("dep store sites", n, "global writes", len(gv))
		for _, g := range gv {
			fmt.Println("  G-VIOL", g)
		}
		src, sinks, uf := vc.OrderCheck()
		fmt.Println("unordered values", src, "unordered functions", uf)
		for _, s := range sinks {
			fmt.Println("  D-SINK", s.fn.String(), vc.position(s.pos), s.desc)
		}
		os.Exit(0)
	}
}
