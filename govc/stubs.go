package main

import (
	"os"
	"regexp"
	"strings"
)

type ExtraChecks struct {
	Violations  []*Violation
	Bounded     []map[string]interface{}
	Assumptions []string
	Samples     []map[string]interface{}
	Obligations int
	Discharged  int
	ByKind      map[string]int
}

type ReplayOutcome struct {
	Confirmed bool   `json:"confirmed"`
	Inputs    string `json:"inputs,omitempty"`
	Output    string `json:"output,omitempty"`
	Test      string `json:"test,omitempty"`
	Note      string `json:"note,omitempty"`
}

// Known findings: /verif/known_findings.txt, read-only at run time.
//
//	finding: property=<id> id=<KF-id> obligation=<regexp on function/obligation> :: <what fails>
//	fixed: property=<id> <commit> <what failed>          (suppresses nothing)
type KnownFinding struct {
	Prop, ID, Desc string
	Re             *regexp.Regexp
	Witness        string // pkgdir:Func(args) for witness findings
	Expect         string // clause that the real function violates on the witness
}

type KnownFindings struct {
	List []*KnownFinding
}

func LoadKnownFindings(path string) *KnownFindings {
	kf := &KnownFindings{}
	data, err := os.ReadFile(path)
	if err != nil {
		return kf
	}
	for _, ln := range strings.Split(string(data), "\n") {
		ln = strings.TrimSpace(ln)
		if !strings.HasPrefix(ln, "finding:") {
			continue
		}
		body := strings.TrimSpace(strings.TrimPrefix(ln, "finding:"))
		desc := ""
		if i := strings.Index(body, "::"); i >= 0 {
			desc = strings.TrimSpace(body[i+2:])
			body = body[:i]
		}
		f := &KnownFinding{Desc: desc}
		if strings.Contains(body, "|") {
			// witness form: fields separated by '|'
			for _, part := range strings.Split(body, "|") {
				part = strings.TrimSpace(part)
				if i := strings.Index(part, "="); i > 0 {
					switch strings.TrimSpace(part[:i]) {
					case "property":
						f.Prop = strings.TrimSpace(part[i+1:])
					case "id":
						f.ID = strings.TrimSpace(part[i+1:])
					case "witness":
						f.Witness = strings.TrimSpace(part[i+1:])
					case "expect":
						f.Expect = strings.TrimSpace(part[i+1:])
					}
				}
			}
			if f.Witness != "" && f.Expect != "" {
				kf.List = append(kf.List, f)
			}
			continue
		}
		for _, kv := range strings.Fields(body) {
			if i := strings.Index(kv, "="); i > 0 {
				switch kv[:i] {
				case "property":
					f.Prop = kv[i+1:]
				case "id":
					f.ID = kv[i+1:]
				case "obligation":
					re, err := regexp.Compile(kv[i+1:])
					if err == nil {
						f.Re = re
					}
				}
			}
		}
		if f.Re != nil {
			kf.List = append(kf.List, f)
		}
	}
	return kf
}

func (k *KnownFindings) Match(prop string, v *Violation) *KnownFinding {
	for _, f := range k.List {
		if f.Prop == prop && f.Re != nil && f.Re.MatchString(v.Obligation) {
			return f
		}
	}
	return nil
}
