package main

import (
	"fmt"
	"strings"
)

// ExtraFor adds the provenance-based obligations (F frame, D order) of the
// properties that need them.
func (vc *VC) ExtraFor(prop string, results []*ObResult) *ExtraChecks {
	if prop != "C16" && prop != "C19" {
		return nil
	}
	ex := &ExtraChecks{ByKind: map[string]int{}}
	fr := vc.FrameCheck()
	for _, site := range fr.Sites {
		if prop == "C16" && !(strings.HasPrefix(site.origin, "param:") || site.ok) {
			// C16 is about the caller's inputs; other frame failures belong to C19
			continue
		}
		ex.Obligations++
		ex.ByKind["F"]++
		if site.ok {
			ex.Discharged++
			continue
		}
		ex.Violations = append(ex.Violations, &Violation{
			Obligation: fmt.Sprintf("%s/F/%s@%s", site.fn.String(), strings.ReplaceAll(site.what, " ", "-"), vc.position(site.pos)),
			Kind:       "F", Func: site.fn.String(), Pos: vc.position(site.pos),
			Clause: "frame: a " + site.what + " must target memory allocated by the function itself, returned fresh by a constructor, or the receiver of a declared mutator",
			Status: "refuted", Reason: "target originates from " + site.origin,
		})
	}
	if len(fr.Sites) > 0 {
		s0 := fr.Sites[0]
		ex.Samples = append(ex.Samples, map[string]interface{}{"obligation": fmt.Sprintf("%s/F/%s@%s", s0.fn.String(), s0.what, vc.position(s0.pos)), "kind": "F", "origin": s0.origin, "result": "discharged by provenance analysis"})
	}
	ex.Assumptions = append(ex.Assumptions, fmt.Sprintf("frame rule checked by an SSA provenance analysis (not SMT) over %d functions / %d store sites of the repository packages", fr.Functions, len(fr.Sites)))
	if prop == "C19" {
		deps := []string{"github.com/trajectoryjp/multidimensional-radix-tree", "github.com/trajectoryjp/closest_go", "github.com/trajectoryjp/geodesy_go", "github.com/wroge/wgs84", "github.com/go-gl/mathgl", "gonum.org/v1/gonum/spatial/r3"}
		n, gv := vc.GlobalWriteScan(deps)
		ex.Obligations += n
		ex.Discharged += n - len(gv)
		ex.ByKind["F-dependency-global"] += n
		for _, g := range gv {
			ex.Violations = append(ex.Violations, &Violation{Obligation: "dependency/F/global-write/" + g, Kind: "F", Func: "dependency", Clause: "no write to package-level state in dependency code reachable from the repository (outside init)", Status: "refuted", Reason: g})
		}
		ex.Assumptions = append(ex.Assumptions,
			fmt.Sprintf("dependency packages: %d store sites reachable from the repository scanned for writes to package-level variables; their other effects (on per-call objects) are not analysed", n),
			"schedules are not explored: the claim is the frame statement (no call writes memory another call can reach); the Go standard library is trusted",
		)
	}
	if prop == "C16" {
		_, sinks, uf := vc.OrderCheck()
		proved := map[string]bool{}
		for _, r := range results {
			if r.Ob.Kind == "D" && r.OK() {
				proved[r.Ob.Pos] = true
			}
		}
		for _, sk := range sinks {
			pos := vc.position(sk.pos)
			ex.Obligations++
			ex.ByKind["D-sink"]++
			if proved[pos] {
				ex.Discharged++
				continue
			}
			ex.Violations = append(ex.Violations, &Violation{
				Obligation: fmt.Sprintf("%s/D/order@%s", sk.fn.String(), pos), Kind: "D", Func: sk.fn.String(), Pos: pos,
				Clause: sk.desc + ": needs a proof that the slice has at most one element", Status: "undischarged",
				Reason: "no discharged D obligation for this site (the function is not under contract or the proof failed)",
			})
		}
		ex.Assumptions = append(ex.Assumptions, fmt.Sprintf("order-determinism: %d functions return slices ordered by map iteration; every constant-index observation of such a slice is a D obligation", len(uf)))
	}
	return ex
}
