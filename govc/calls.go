package main

import (
	"fmt"
	"go/token"
	"go/types"
	"strings"

	"golang.org/x/tools/go/ssa"
)

func (f *fctx) setResult(ins *ssa.Call, res []Term) {
	switch len(res) {
	case 0:
		return
	case 1:
		r := res[0]
		r.Ty = ins.Type()
		f.vals[ins] = r
	default:
		f.tuples[ins] = res
		f.vals[ins] = Term{S: "tuple", Sort: &Sort{Kind: KTuple}}
	}
}

func (f *fctx) call(ins *ssa.Call) {
	com := ins.Common()
	pos := ins.Pos()
	if com.IsInvoke() {
		f.invoke(ins)
		return
	}
	switch callee := com.Value.(type) {
	case *ssa.Builtin:
		f.builtin(ins, callee)
		return
	case *ssa.Function:
		var args []Term
		for _, a := range com.Args {
			if _, isMap := a.Type().Underlying().(*types.Map); isMap {
				f.fail("map passed to a call (map aliasing is not modelled)")
			}
			args = append(args, f.val(a))
		}
		f.callFunction(ins, callee, args, pos)
		return
	case *ssa.MakeClosure:
		fn := callee.Fn.(*ssa.Function)
		var args []Term
		for _, a := range com.Args {
			args = append(args, f.val(a))
		}
		res := f.inlineCall(fn, args, callee.Bindings, pos)
		f.setResult(ins, res)
		return
	case *ssa.Parameter:
		// the emit idiom: a callback parameter declared `emits`
		if f.con != nil && f.con.Emits == callee.Name() && f.emitSeq != "" {
			if len(com.Args) != 1 {
				f.fail("emit callback with %d arguments", len(com.Args))
			}
			a := f.val(com.Args[0])
			cur := f.cur.cells[f.emitSeq]
			f.cur.cells[f.emitSeq] = f.define("emit", T(cur.Sort, "(%s (+ (seq.len %s) 1) (store (seq.el %s) (seq.len %s) %s))", mkseqOf(cur.Sort), cur.S, cur.S, cur.S, a.S))
			return
		}
		f.fail("call of function-typed parameter %s", callee.Name())
	}
	if mc, ok := f.closureOf(com.Value); ok {
		var args []Term
		for _, a := range com.Args {
			args = append(args, f.val(a))
		}
		res := f.inlineCall(mc.Fn.(*ssa.Function), args, mc.Bindings, pos)
		f.setResult(ins, res)
		return
	}
	f.fail("dynamic call through %T", com.Value)
}

func (f *fctx) closureOf(v ssa.Value) (*ssa.MakeClosure, bool) {
	mc, ok := f.clos[v]
	return mc, ok
}

func (f *fctx) invoke(ins *ssa.Call) {
	com := ins.Common()
	if com.Method.Name() == "Error" && isErrorType(com.Value.Type()) {
		x := f.val(com.Value)
		f.oblige("S", fmt.Sprintf("S/nil-invoke@%s", f.insID(ins)), x, ins.Pos(), "method call on nil error")
		s := f.declare(ins.Name(), SStr)
		f.assume(T(SBool, "(str.wf %s)", s.S))
		f.setVal(ins, s)
		return
	}
	// third-party interface methods with an assumed (extern) contract: opaque total calls
	key := ":invoke." + typeBaseName(com.Value.Type()) + "." + com.Method.Name()
	if con := f.vc.cs.Funcs[key]; con != nil {
		f.oblige("S", fmt.Sprintf("S/nil-invoke@%s", f.insID(ins)), T(SBool, "(not (= %s any.nil))", f.val(com.Value).S), ins.Pos(), "method call on nil interface")
		f.sc.Trusted["assumed contract (third-party, total, no effect on repository state): "+strings.TrimPrefix(key, ":invoke.")] = true
		sig := com.Signature()
		pre := f.cur.clone()
		vars := map[string]Term{}
		actuals := []Term{f.val(com.Value)}
		for _, a := range com.Args {
			actuals = append(actuals, f.val(a))
		}
		for i, n := range con.ParamNames {
			if i < len(actuals) {
				vars[n] = actuals[i]
			}
		}
		mkEnv := func(st *State) *Env {
			return &Env{Vars: vars, Defs: f.vc.cs.Defs, Reveal: f.revealSet(), Ghost: f.ghostResolver(st),
				FieldOf: func(x Term, field string) (Term, bool) { return f.fieldIn(st, x, field) }}
		}
		var preTerms []Term
		for i, c := range con.Requires {
			t, err := ToSMT(c.Expr, mkEnv(pre))
			if err != nil {
				panic(specErr{fmt.Sprintf("%s:%d: %v", c.File, c.Line, err)})
			}
			preTerms = append(preTerms, wantBoolE(t))
			f.oblige("R", fmt.Sprintf("R/%s.requires%d@%s", strings.TrimPrefix(key, ":invoke."), i, f.insID(ins)), wantBoolE(t), ins.Pos(), c.Text)
		}
		preAll := f.define("pre", And(preTerms...))
		var res []Term
		for i := 0; i < sig.Results().Len(); i++ {
			r := f.declare(fmt.Sprintf("%s_r%d", com.Method.Name(), i), f.vc.sortOf(sig.Results().At(i).Type()))
			f.assumeTypeInvariant(r, sig.Results().At(i).Type(), false)
			vars[fmt.Sprintf("r%d", i)] = r
			res = append(res, r)
		}
		f.havocGhosts(con.Modifies)
		env := mkEnv(f.cur)
		env.Old = mkEnv(pre)
		for _, c := range con.Ensures {
			t, err := ToSMT(c.Expr, env)
			if err != nil {
				panic(specErr{fmt.Sprintf("%s:%d: %v", c.File, c.Line, err)})
			}
			f.assume(Implies(preAll, wantBoolE(t)))
		}
		f.setResult(ins, res)
		return
	}
	f.fail("interface method call %s", com.Method.Name())
}

func (f *fctx) builtin(ins *ssa.Call, b *ssa.Builtin) {
	args := ins.Common().Args
	switch b.Name() {
	case "len":
		x := args[0]
		switch x.Type().Underlying().(type) {
		case *types.Slice:
			f.defVal(ins, T(SInt, "(seq.len %s)", f.val(x).S))
		case *types.Map:
			if key, ok := f.mapKey[x]; ok {
				f.defVal(ins, T(SInt, "(map.size %s)", f.cur.cells[key].S))
			} else {
				f.defVal(ins, T(SInt, "(map.size %s)", f.val(x).S))
			}
		case *types.Array:
			f.vals[ins] = IntLit(x.Type().Underlying().(*types.Array).Len())
		default:
			f.fail("len of %s", x.Type())
		}
	case "cap":
		f.fail("cap")
	case "append":
		s := f.val(args[0])
		if len(args) == 1 {
			f.vals[ins] = s
			return
		}
		t := f.val(args[1])
		if t.Sort.Kind != KSeq {
			f.fail("append of %s", t.Sort)
		}
		if n, ok := f.constLen[t.S]; ok {
			el := fmt.Sprintf("(seq.el %s)", s.S)
			for k := 0; k < n; k++ {
				el = fmt.Sprintf("(store %s (+ (seq.len %s) %d) (select (seq.el %s) %d))", el, s.S, k, t.S, k)
			}
			f.defVal(ins, Term{S: fmt.Sprintf("(%s (+ (seq.len %s) %d) %s)", mkseqOf(s.Sort), s.S, n, el), Sort: s.Sort})
			if bn, ok := f.constLen[s.S]; ok {
				f.constLen[f.vals[ins].S] = bn + n
			}
			return
		}
		r := f.declare(ins.Name(), s.Sort)
		f.assume(T(SBool, "(= (seq.len %s) (+ (seq.len %s) (seq.len %s)))", r.S, s.S, t.S))
		f.assume(T(SBool, "(forall ((q!k Int)) (! (=> (and (<= 0 q!k) (< q!k (seq.len %s))) (= (select (seq.el %s) q!k) (select (seq.el %s) q!k))) :pattern ((select (seq.el %s) q!k))))", s.S, r.S, s.S, r.S))
		f.assume(T(SBool, "(forall ((q!k Int)) (! (=> (and (<= 0 q!k) (< q!k (seq.len %s))) (= (select (seq.el %s) (+ (seq.len %s) q!k)) (select (seq.el %s) q!k))) :pattern ((select (seq.el %s) q!k))))", t.S, r.S, s.S, t.S, t.S))
		f.assume(T(SBool, "(forall ((q!k Int)) (! (=> (and (<= (seq.len %s) q!k) (< q!k (seq.len %s))) (= (select (seq.el %s) q!k) (select (seq.el %s) (- q!k (seq.len %s))))) :pattern ((select (seq.el %s) q!k))))", s.S, r.S, r.S, t.S, s.S, r.S))
		// membership form of the same fact (a consequence of the three clauses above), stated over the predicate
		// of member(e, s) so that chains of set facts go through concatenations by matching
		if pn := memberPred(s.Sort); pn != "" {
			f.assume(T(SBool, "(forall ((q!e %s)) (! (= (%s %s q!e) (or (%s %s q!e) (%s %s q!e))) :pattern ((%s %s q!e)) :pattern ((%s %s q!e)) :pattern ((%s %s q!e))))",
				s.Sort.Elem.SMT(), pn, r.S, pn, s.S, pn, t.S, pn, r.S, pn, s.S, pn, t.S))
		}
		f.setVal(ins, r)
	default:
		f.fail("builtin %s", b.Name())
	}
}

// mathCall models the standard-library numeric functions (DESIGN 2.2).
func (f *fctx) mathCall(name string, a []Term) (Term, bool) {
	switch name {
	case "math.Pow":
		r := T(SReal, "(f.pow %s %s)", a[0].S, a[1].S)
		return r, true
	case "math.Abs":
		return T(SReal, "(rabs %s)", a[0].S), true
	case "math.Floor":
		return T(SReal, "(to_real (floor %s))", a[0].S), true
	case "math.Ceil":
		return T(SReal, "(to_real (ceil %s))", a[0].S), true
	case "math.Trunc":
		return T(SReal, "(to_real (trunc %s))", a[0].S), true
	case "math.Mod":
		return T(SReal, "(f.mod %s %s)", a[0].S, a[1].S), true
	case "math.Log", "math.Tan", "math.Cos", "math.Sin", "math.Atan", "math.Sinh", "math.Sqrt", "math.Exp", "math.Asin", "math.Acos", "math.Atan2", "math.Asinh":
		fnm := "m." + strings.TrimPrefix(name, "math.")
		f.sc.Trusted["math."+strings.TrimPrefix(name, "math.")+" is an uninterpreted total function"] = true
		var as []string
		for _, x := range a {
			as = append(as, x.S)
		}
		return T(SReal, "(%s %s)", fnm, strings.Join(as, " ")), true
	}
	return Term{}, false
}

func (f *fctx) callFunction(ins *ssa.Call, callee *ssa.Function, args []Term, pos token.Pos) {
	name := callee.String()
	// standard library models
	if r, ok := f.mathCall(name, args); ok {
		d := f.define(ins.Name(), r)
		if name == "math.Pow" && args[0].S == "2.0" {
			f.pow2Vals[d.S] = true
		}
		f.setVal(ins, d)
		return
	}
	switch name {
	case "strconv.FormatInt":
		if args[1].S == "4" {
			// base-4 digit string: only usable through strings.Split(s, "")
			r := f.declare(ins.Name(), SStr)
			f.digits4[r.S] = args[0]
			f.setVal(ins, r)
			return
		}
		if args[1].S != "10" {
			f.fail("FormatInt with base %s", args[1].S)
		}
		f.defVal(ins, T(SStr, "(str.fmt %s)", args[0].S))
		return
	case "strconv.Itoa":
		f.defVal(ins, T(SStr, "(str.fmt %s)", args[0].S))
		return
	case "strconv.ParseInt":
		if args[1].S != "10" || args[2].S != "64" {
			f.fail("ParseInt with base/bits %s/%s", args[1].S, args[2].S)
		}
		ok := f.define(ins.Name()+"ok", T(SBool, "(str.isnum %s)", args[0].S))
		v := f.define(ins.Name()+"v", Ite(ok, T(SInt, "(str.val %s)", args[0].S), IntLit(0)))
		// on error ParseInt returns 0 or the nearest bound; only nil-ness of err and the ok value are modelled
		errv := f.declare(ins.Name()+"ev", SInt)
		f.assume(T(SBool, "(in64 %s)", errv.S))
		f.setResult(ins, []Term{Ite(ok, v, errv), Not(ok)})
		f.sc.Trusted["strconv.ParseInt/Atoi: succeed exactly on one-field numeric atoms in int64 range"] = true
		return
	case "strconv.ParseUint":
		if args[1].S != "10" || args[2].S != "64" {
			f.fail("ParseUint with base/bits %s/%s", args[1].S, args[2].S)
		}
		// canonical decimal texts of 0..2^64-1 succeed, canonical negative numbers and junk fail; for a
		// non-canonical spelling (a.alt: "+5", "007", "-0") success depends on the sign character, which the
		// string model does not keep: left undetermined
		altok := f.declare(ins.Name()+"altok", SBool)
		a0 := fmt.Sprintf("(f0 %s)", args[0].S)
		ok := f.define(ins.Name()+"ok", T(SBool, "(and (= (nf %s) 1) (or (and ((_ is a.num) %s) (<= 0 (a.val %s)) (<= (a.val %s) 18446744073709551615)) (and ((_ is a.alt) %s) (<= 0 (a.altval %s)) (<= (a.altval %s) 18446744073709551615) %s)))", args[0].S, a0, a0, a0, a0, a0, a0, altok.S))
		v := f.define(ins.Name()+"v", Ite(ok, T(SInt, "(a.value %s)", a0), IntLit(0)))
		errv := f.declare(ins.Name()+"ev", SInt)
		f.assume(T(SBool, "(and (<= 0 %s) (<= %s 18446744073709551615))", errv.S, errv.S))
		f.setResult(ins, []Term{Ite(ok, v, errv), Not(ok)})
		f.sc.Trusted["strconv.ParseUint: succeeds on canonical decimal texts of 0..2^64-1, fails on negative numbers and non-numbers"] = true
		return
	case "strconv.Atoi":
		ok := f.define(ins.Name()+"ok", T(SBool, "(str.isnum %s)", args[0].S))
		v := f.define(ins.Name()+"v", Ite(ok, T(SInt, "(str.val %s)", args[0].S), IntLit(0)))
		errv := f.declare(ins.Name()+"ev", SInt)
		f.assume(T(SBool, "(in64 %s)", errv.S))
		f.setResult(ins, []Term{Ite(ok, v, errv), Not(ok)})
		f.sc.Trusted["strconv.ParseInt/Atoi: succeed exactly on one-field numeric atoms in int64 range"] = true
		return
	case "strings.Split":
		if q, ok := f.digits4[args[0].S]; ok && args[1].S == strLiteral("").S {
			// the characters of FormatInt(q, 4) for q >= 0: n base-4 digits, most significant first
			f.oblige("S", fmt.Sprintf("M/digits4@%s", f.insID(ins)), T(SBool, "(>= %s 0)", q.S), pos, "digit-string model: non-negative value")
			n := f.declare(ins.Name()+"_ndigits", SInt)
			if root := f.rootFctx(); root.rootCon != nil {
				for _, sp := range root.rootCon.Splits {
					if sp.Var == "$ndigits" {
						if f.sc.SplitConsts == nil {
							f.sc.SplitConsts = map[string]string{}
						}
						f.sc.SplitConsts[n.S] = sp.Var
					}
				}
			}
			f.ndigits = &n
			f.assume(T(SBool, "(and (<= 1 %s) (<= %s 32) (< %s (pow2 (* 2 %s))) (or (= %s 1) (>= %s (pow2 (* 2 (- %s 1))))))", n.S, n.S, q.S, n.S, n.S, q.S, n.S))
			r := f.declare(ins.Name(), SeqOf(SStr))
			f.assume(T(SBool, "(= (seq.len %s) %s)", r.S, n.S))
			f.assume(T(SBool, "(forall ((q!k Int)) (! (=> (and (<= 0 q!k) (< q!k %s)) (= (select (seq.el %s) q!k) (str1 (a.num (mod (div %s (pow2 (* 2 (- (- %s 1) q!k)))) 4))))) :pattern ((select (seq.el %s) q!k))))", n.S, r.S, q.S, n.S, r.S))
			f.setVal(ins, r)
			f.sc.Trusted["strings.Split(strconv.FormatInt(q,4),\"\") for q>=0: the base-4 digits of q, most significant first, no leading zeros"] = true
			return
		}
		if args[1].S != strLiteral("/").S {
			f.fail("strings.Split with separator other than \"/\"")
		}
		s := args[0]
		el := fmt.Sprintf("(tail.arr (rest %s))", s.S)
		for k := 0; k < 6; k++ {
			el = fmt.Sprintf("(store %s %d (str1 (f%d %s)))", el, k, k, s.S)
		}
		f.defVal(ins, Term{S: fmt.Sprintf("(%s (nf %s) %s)", mkseqOf(SeqOf(SStr)), s.S, el), Sort: SeqOf(SStr)})
		f.sc.Trusted["strings.Split(s,\"/\"): nf(s) one-field strings, fields in order"] = true
		return
	case "strings.Join":
		if args[1].S != strLiteral("/").S {
			f.fail("strings.Join with separator other than \"/\"")
		}
		n, ok := f.constLen[args[0].S]
		if !ok || n == 0 {
			f.fail("strings.Join of a slice of unknown length")
		}
		t := T(SStr, "(select (seq.el %s) 0)", args[0].S)
		for k := 1; k < n; k++ {
			t = T(SStr, "(strjoin %s (select (seq.el %s) %d))", t.S, args[0].S, k)
		}
		r := f.define(ins.Name(), t)
		f.oblige("S", fmt.Sprintf("M/strjoin@%s", f.insID(ins)), T(SBool, "(<= (nf %s) 6)", r.S), pos, "string model: at most 6 '/'-separated fields")
		f.setVal(ins, r)
		f.sc.Trusted["strings.Join(l,\"/\"): concatenation of the field lists"] = true
		return
	case "sort.Float64s":
		// in-place sort: the slice value is re-bound to a sorted rearrangement of itself
		// (same length, ascending, same set of elements); sound because slices built in this
		// function are not aliased (frame rule)
		x := ins.Common().Args[0]
		old := f.val(x)
		r := f.declare(ins.Name()+"_sorted", old.Sort)
		f.assume(T(SBool, "(= (seq.len %s) (seq.len %s))", r.S, old.S))
		f.assume(T(SBool, "(forall ((q!i Int) (q!j Int)) (! (=> (and (<= 0 q!i) (<= q!i q!j) (< q!j (seq.len %s))) (<= (select (seq.el %s) q!i) (select (seq.el %s) q!j))) :pattern ((select (seq.el %s) q!i) (select (seq.el %s) q!j))))", r.S, r.S, r.S, r.S, r.S))
		f.assume(T(SBool, "(forall ((q!i Int)) (! (=> (and (<= 0 q!i) (< q!i (seq.len %s))) (exists ((q!j Int)) (and (<= 0 q!j) (< q!j (seq.len %s)) (= (select (seq.el %s) q!i) (select (seq.el %s) q!j))))) :pattern ((select (seq.el %s) q!i))))", r.S, old.S, r.S, old.S, r.S))
		f.assume(T(SBool, "(forall ((q!j Int)) (! (=> (and (<= 0 q!j) (< q!j (seq.len %s))) (exists ((q!i Int)) (and (<= 0 q!i) (< q!i (seq.len %s)) (= (select (seq.el %s) q!i) (select (seq.el %s) q!j))))) :pattern ((select (seq.el %s) q!j))))", old.S, r.S, r.S, old.S, old.S))
		r.Ty = x.Type()
		f.vals[x] = r
		if n, ok := f.constLen[old.S]; ok {
			f.constLen[r.S] = n
		}
		f.sc.Trusted["sort.Float64s: ascending rearrangement with the same elements"] = true
		return
	case "fmt.Errorf":
		f.vals[ins] = BoolLit(true)
		return
	case "fmt.Sprintf", "fmt.Sprint":
		s := f.declare(ins.Name(), SStr)
		f.assume(T(SBool, "(str.wf %s)", s.S))
		f.setVal(ins, s)
		return
	}
	if strings.HasSuffix(name, "/common/errors.NewSpatialIdError") {
		f.vals[ins] = BoolLit(true)
		return
	}
	con := f.vc.contractOf(callee)
	_, inRepo := f.vc.dirOf(callee)
	if unr, ok := f.inlineDirective(callee); ok {
		res := f.inlineCallWith(callee, args, nil, pos, unr, con)
		f.setResult(ins, res)
		return
	}
	if con != nil && !con.Inline && !(f.fn == callee && f.con == con && false) {
		res := f.applyContract(callee, con, args, pos, f.insID(ins))
		f.setResult(ins, res)
		return
	}
	if !inRepo && callee.Parent() == nil && inlinableDependency(name) && callee.Blocks != nil {
		// small pure dependency functions whose source go/ssa has built from the module cache (the code that is compiled):
		// verified as part of the caller, like a repository helper without contract
		f.sc.Trusted["note: dependency function "+name+" is translated from its source in the module cache and verified inline (not assumed)"] = true
		res := f.inlineCall(callee, args, nil, pos)
		f.setResult(ins, res)
		return
	}
	if inRepo || callee.Parent() != nil {
		res := f.inlineCall(callee, args, nil, pos)
		f.setResult(ins, res)
		return
	}
	f.fail("call of %s: no model, no contract", name)
}

// applyContract uses the callee's contract: check requires, havoc frame, assume ensures.
func (f *fctx) applyContract(callee *ssa.Function, con *Contract, args []Term, pos token.Pos, id string) []Term {
	pre := f.cur.clone()
	if con.Trusted {
		f.sc.Trusted["assumed contract: "+callee.String()] = true
	}
	// preconditions (including the split ranges the contract was proved for)
	envPre := f.contractEnv(con, callee, args, nil, pre, pre)
	var preTerms []Term
	for _, sp := range con.Splits {
		if parts := strings.SplitN(sp.Var, ".", 2); len(parts) == 2 && !strings.HasPrefix(sp.Var, "$") && sp.HiVar == "" {
			// split on a field of a parameter object: the field must be in the proved range at the call
			for i, p := range callee.Params {
				if p.Name() == parts[0] {
					obj := args[i]
					obj.Ty = p.Type()
					if ft, ok := f.fieldIn(pre, obj, parts[1]); ok {
						g := T(SBool, "(and (<= %s %s) (<= %s %s))", IntLit(int64(sp.Lo)).S, ft.S, ft.S, IntLit(int64(sp.Hi)).S)
						preTerms = append(preTerms, g)
						f.oblige("R", fmt.Sprintf("R/%s.split-%s@%s", FuncKey(callee), sp.Var, id), g, pos, fmt.Sprintf("%s in %d..%d (range the callee contract is proved for)", sp.Var, sp.Lo, sp.Hi))
					}
				}
			}
			continue
		}
		for i, p := range callee.Params {
			if p.Name() == sp.Var {
				if sp.HiVar != "" {
					continue
				}
				g := T(SBool, "(and (<= %s %s) (<= %s %s))", IntLit(int64(sp.Lo)).S, args[i].S, args[i].S, IntLit(int64(sp.Hi)).S)
				preTerms = append(preTerms, g)
				f.oblige("R", fmt.Sprintf("R/%s.split-%s@%s", FuncKey(callee), sp.Var, id), g, pos,
					fmt.Sprintf("%s in %d..%d (range the callee contract is proved for)", sp.Var, sp.Lo, sp.Hi))
			}
		}
	}
	for i, c := range con.Requires {
		t, err := ToSMT(c.Expr, envPre)
		if err != nil {
			panic(specErr{fmt.Sprintf("%s:%d: %v", c.File, c.Line, err)})
		}
		tag := c.Tag
		if tag == "" {
			tag = fmt.Sprintf("%d", i)
		}
		preTerms = append(preTerms, wantBoolE(t))
		f.oblige("R", fmt.Sprintf("R/%s.requires%s@%s", FuncKey(callee), tag, id), wantBoolE(t), pos, c.Text)
	}
	// the postcondition is assumed only under the precondition, so that it can
	// never contribute to the proof of its own precondition (this is what allows
	// all obligations of an instance to be discharged by one query)
	preAll := f.define("pre", And(preTerms...))
	// results
	var res []Term
	rs := callee.Signature.Results()
	for i := 0; i < rs.Len(); i++ {
		s := f.vc.sortOf(rs.At(i).Type())
		var r Term
		if con.Pure {
			// a pure function: its result is a function of the arguments (uninterpreted symbol constrained by the ensures)
			app := f.vc.pureApp(callee, i, args)
			if f.sc.CalledPure == nil {
				f.sc.CalledPure = map[string]bool{}
			}
			if j := strings.Index(app.S, " "); j > 1 {
				f.sc.CalledPure[app.S[1:j]] = true
			}
			r = f.define(fmt.Sprintf("%s_r%d", callee.Name(), i), app)
		} else {
			r = f.declare(fmt.Sprintf("%s_r%d", callee.Name(), i), s)
		}
		r.Ty = rs.At(i).Type()
		isFresh := false
		for _, fr := range con.Fresh {
			if fr == fmt.Sprintf("r%d", i) || fr == rs.At(i).Name() {
				isFresh = true
			}
		}
		if isFresh {
			f.assume(T(SBool, "(> %s %s)", r.S, f.top().S))
			f.cur.cells["top"] = r
			if pt, ok := rs.At(i).Type().Underlying().(*types.Pointer); ok {
				if st, ok := pt.Elem().Underlying().(*types.Struct); ok {
					ss := f.vc.structSortOf(pt.Elem(), st)
					for _, fl := range ss.Fields {
						key := "H$" + ss.Name + "$" + fl.Name
						h := f.heap(key, fl.Sort)
						nv := f.declare("fresh_"+fl.Name, fl.Sort)
						f.cur.cells[key] = f.define("h", Term{S: fmt.Sprintf("(store %s %s %s)", h.S, r.S, nv.S), Sort: h.Sort})
					}
				}
			}
		} else {
			f.assumeTypeInvariant(r, rs.At(i).Type(), false)
		}
		res = append(res, r)
	}
	f.havocGhosts(con.Modifies)
	emitted := f.applyEmits(callee, con, args)
	// frame: assigns recv.f / param.f
	for _, a := range con.Assigns {
		parts := strings.SplitN(a, ".", 2)
		if len(parts) != 2 {
			panic(specErr{"assigns entry must be param.field: " + a})
		}
		var obj Term
		found := false
		for i, p := range callee.Params {
			if p.Name() == parts[0] {
				obj = args[i]
				obj.Ty = p.Type()
				found = true
			}
		}
		if !found {
			panic(specErr{"assigns: unknown parameter " + parts[0]})
		}
		pt := obj.Ty.Underlying().(*types.Pointer)
		ss := f.vc.structSortOf(pt.Elem(), pt.Elem().Underlying().(*types.Struct))
		for _, fl := range ss.Fields {
			if parts[1] == "*" || parts[1] == fl.Name {
				key := "H$" + ss.Name + "$" + fl.Name
				h := f.heap(key, fl.Sort)
				nv := f.declare("asg_"+fl.Name, fl.Sort)
				f.cur.cells[key] = f.define("h", Term{S: fmt.Sprintf("(store %s %s %s)", h.S, obj.S, nv.S), Sort: h.Sort})
			}
		}
	}
	// callee effects not covered by a declared frame are a contract error
	if !con.Extern {
		eff := f.vc.effectsOf(callee)
		for k := range eff {
			covered := false
			for _, a := range con.Assigns {
				parts := strings.SplitN(a, ".", 2)
				if strings.HasSuffix(k, "$"+parts[1]) || parts[1] == "*" {
					covered = true
				}
			}
			if len(con.Fresh) > 0 || con.LocalEffects {
				covered = true // writes to freshly allocated objects
			}
			if !covered && strings.HasPrefix(k, "H$") {
				panic(specErr{fmt.Sprintf("contract of %s has no assigns clause for %s", callee.String(), k)})
			}
		}
	}
	env := f.contractEnv(con, callee, args, res, f.cur, pre)
	if emitted != nil {
		env.Vars["$emitted"] = *emitted
	}
	for _, c := range con.Ensures {
		t, err := ToSMT(c.Expr, env)
		if err != nil {
			panic(specErr{fmt.Sprintf("%s:%d: %v", c.File, c.Line, err)})
		}
		f.assume(Implies(preAll, wantBoolE(t)))
	}
	if root := f.rootFctx(); root.rootCon != nil {
		for _, c := range root.rootCon.AssumeCall[callee.Name()] {
			t, err := ToSMT(c.Expr, env)
			if err != nil {
				panic(specErr{fmt.Sprintf("%s:%d: %v", c.File, c.Line, err)})
			}
			f.assume(wantBoolE(t))
			f.sc.Trusted["domain restriction (assumed, not proved): results of "+callee.Name()+" satisfy "+c.Text] = true
		}
	}
	// a postcondition `len(rK) == <literal>` makes the result a sequence of statically known length
	if len(con.Requires) == 0 || true {
		for _, c := range con.Ensures {
			for _, cj := range conjuncts(c.Expr) {
				if b, ok := cj.(*EBinary); ok && b.Op == "==" {
					if call, ok := b.X.(*ECall); ok && call.Fn == "len" && len(call.Args) == 1 {
						if id, ok := call.Args[0].(*EIdent); ok {
							if num, ok := b.Y.(*ENum); ok && num.Int != nil && num.Int.IsInt64() {
								for i := range res {
									if id.Name == fmt.Sprintf("r%d", i) || id.Name == callee.Signature.Results().At(i).Name() {
										f.constLen[res[i].S] = int(num.Int.Int64())
									}
								}
							}
						}
					}
				}
			}
		}
	}
	if root := f.rootFctx(); root != nil {
		if root.callRes == nil {
			root.callRes = map[string][]Term{}
		}
		root.callRes[callee.Name()] = res
	}
	// additional cases: their ensures hold for arguments of the case's shape
	// that satisfy the case's own requires and split ranges
	for _, cc := range con.Cases {
		if cc.Local {
			continue
		}
		if cc.Float == "ideal" && !f.rootFctx().ideal && !con.Pure {
			continue // a case proved over ideal reals is assumed only by callers that are themselves verified over ideal reals
		}
		cenvPre := f.contractEnv(cc, callee, args, nil, pre, pre)
		var guards []Term
		guards = append(guards, preAll)
		for _, sh := range cc.Shapes {
			for i, p := range callee.Params {
				if p.Name() == sh.Param {
					var atoms []string
					for gi := range sh.Ghosts {
						atoms = append(atoms, fmt.Sprintf("(a.num (a.value (fld %s %d)))", args[i].S, gi))
					}
					guards = append(guards, T(SBool, "(= %s (str%d %s))", args[i].S, len(sh.Ghosts), strings.Join(atoms, " ")))
				}
			}
		}
		for _, sp := range cc.Splits {
			if sp.HiVar != "" || strings.HasPrefix(sp.Var, "$") {
				continue // internal case split (loop index, ghost count): not a condition on the arguments
			}
			if _, isParamOrGhost := cenvPre.Vars[sp.Var]; !isParamOrGhost {
				continue
			}
			e, err := ParseExpr(fmt.Sprintf("%d <= %s && %s <= %d", sp.Lo, sp.Var, sp.Var, sp.Hi))
			if err != nil {
				panic(specErr{err.Error()})
			}
			t, err := ToSMT(e, cenvPre)
			if err != nil {
				panic(specErr{fmt.Sprintf("%s:%d: split %s: %v", cc.File, cc.Line, sp.Var, err)})
			}
			guards = append(guards, wantBoolE(t))
		}
		for _, c := range cc.Requires {
			t, err := ToSMT(c.Expr, cenvPre)
			if err != nil {
				panic(specErr{fmt.Sprintf("%s:%d: %v", c.File, c.Line, err)})
			}
			guards = append(guards, wantBoolE(t))
		}
		g := f.define("caseguard", And(guards...))
		cenv := f.contractEnv(cc, callee, args, res, f.cur, pre)
		for _, c := range cc.Ensures {
			t, err := ToSMT(c.Expr, cenv)
			if err != nil {
				panic(specErr{fmt.Sprintf("%s:%d: %v", c.File, c.Line, err)})
			}
			f.assume(Implies(g, wantBoolE(t)))
		}
	}
	return res
}

// applyEmits: the callee declares `emits <callback parameter>`: it calls the callback any number of times.  The
// argument must be a closure of the form func(x) { captured = append(captured, x) }; its effect is that the
// captured slice is extended by the (unknown) emitted sequence, which the callee's ensures may constrain as $emitted.
func (f *fctx) applyEmits(callee *ssa.Function, con *Contract, args []Term) *Term {
	if con.Emits == "" {
		return nil
	}
	idx := -1
	for i, p := range callee.Params {
		if p.Name() == con.Emits {
			idx = i
		}
	}
	if idx < 0 || idx >= len(args) {
		panic(specErr{"emits: unknown parameter " + con.Emits})
	}
	var mc *ssa.MakeClosure
	for _, c := range f.clos {
		if "closure:"+c.Name() == args[idx].S {
			mc = c
		}
	}
	if mc == nil {
		f.fail("argument for the emitting callback %s of %s is not a closure literal", con.Emits, callee.Name())
	}
	fn := mc.Fn.(*ssa.Function)
	// recognise  func(x T) { v = append(v, x) }
	var fv *ssa.FreeVar
	ok := len(fn.FreeVars) >= 1 && len(fn.Params) == 1 && len(fn.Blocks) == 1
	stores := 0
	if ok {
		for _, ins := range fn.Blocks[0].Instrs {
			st, isStore := ins.(*ssa.Store)
			if !isStore {
				continue
			}
			if v, isFV := st.Addr.(*ssa.FreeVar); isFV {
				stores++
				call, isCall := st.Val.(*ssa.Call)
				if !isCall {
					ok = false
					continue
				}
				bi, isB := call.Call.Value.(*ssa.Builtin)
				if !isB || bi.Name() != "append" || len(call.Call.Args) != 2 {
					ok = false
					continue
				}
				ld, isLd := call.Call.Args[0].(*ssa.UnOp)
				if !isLd || ld.X != v {
					ok = false
					continue
				}
				fv = v
			}
		}
	}
	if !ok || stores != 1 || fv == nil {
		f.fail("closure passed as emitting callback of %s is not of the form v = append(v, x)", callee.Name())
	}
	var bind ssa.Value
	for i, v := range fn.FreeVars {
		if v == fv && i < len(mc.Bindings) {
			bind = mc.Bindings[i]
		}
	}
	var place *Place
	if p, ok := f.places[bind]; ok {
		place = p
	} else if p, ok := f.binds[bind]; ok {
		place = p
	}
	if place == nil || place.Kind != PCell || place.Sort.Kind != KSeq {
		f.fail("emitting callback of %s: captured variable is not a local slice", callee.Name())
	}
	old := f.cur.cells[place.Key]
	em := f.declare("emitted", place.Sort)
	f.assume(T(SBool, "(>= (seq.len %s) 0)", em.S))
	nv := f.declare("after_emit", place.Sort)
	f.assume(T(SBool, "(= (seq.len %s) (+ (seq.len %s) (seq.len %s)))", nv.S, old.S, em.S))
	f.assume(T(SBool, "(forall ((q!k Int)) (! (=> (and (<= 0 q!k) (< q!k (seq.len %s))) (= (select (seq.el %s) q!k) (select (seq.el %s) q!k))) :pattern ((select (seq.el %s) q!k))))", old.S, nv.S, old.S, nv.S))
	f.assume(T(SBool, "(forall ((q!k Int)) (! (=> (and (<= 0 q!k) (< q!k (seq.len %s))) (= (select (seq.el %s) (+ (seq.len %s) q!k)) (select (seq.el %s) q!k))) :pattern ((select (seq.el %s) q!k))))", em.S, nv.S, old.S, em.S, em.S))
	if place.Sort.Elem.Kind == KStr {
		f.assume(T(SBool, "(forall ((q!k Int)) (! (str.wf (select (seq.el %s) q!k)) :pattern ((select (seq.el %s) q!k))))", em.S, em.S))
		f.assume(T(SBool, "(forall ((q!k Int)) (! (str.wf (select (seq.el %s) q!k)) :pattern ((select (seq.el %s) q!k))))", nv.S, nv.S))
	}
	f.cur.cells[place.Key] = nv
	f.sc.Trusted["emit idiom: "+callee.Name()+" calls its callback "+con.Emits+" zero or more times and does nothing else with it"] = true
	return &em
}

// inlineCall translates the callee body in place (callees without contract).
// inlineDirective: the root contract asks for this callee to be translated in place.
func (f *fctx) inlineDirective(callee *ssa.Function) (map[int]int, bool) {
	root := f
	for root.parent != nil {
		root = root.parent
	}
	if root.rootCon == nil || root.rootCon.InlineCalls == nil {
		return nil, false
	}
	m, ok := root.rootCon.InlineCalls[FuncKey(callee)]
	return m, ok
}

func (f *fctx) inlineCall(callee *ssa.Function, args []Term, bindings []ssa.Value, pos token.Pos) []Term {
	return f.inlineCallWith(callee, args, bindings, pos, nil, nil)
}

func (f *fctx) inlineCallWith(callee *ssa.Function, args []Term, bindings []ssa.Value, pos token.Pos, unroll map[int]int, calleeCon *Contract) []Term {
	if f.depth >= 5 {
		f.fail("inlining depth exceeded at %s", callee.String())
	}
	if callee.Blocks == nil {
		f.fail("call of %s: no body to inline and no contract", callee.String())
	}
	for p := f; p != nil; p = p.parent {
		if p.fn == callee {
			f.fail("recursive call of %s without contract", callee.String())
		}
	}
	*f.counter++
	pfx := fmt.Sprintf("%si%d.", f.pfx, *f.counter)
	c := f.vc.newFctx(callee, nil, f.sc, pfx, f.counter)
	c.depth = f.depth + 1
	c.parent = f
	c.inline = true
	c.ideal = f.ideal
	c.pow2Vals = f.pow2Vals
	c.constLen = f.constLen
	c.digits4 = f.digits4
	c.obPrefix = f.obPrefix
	c.validTerm = f.validTerm
	c.con = &Contract{Loops: map[int][]Clause{}, Unroll: map[int]int{}, NoOverflow: f.con != nil && f.con.NoOverflow}
	for l, n := range unroll {
		c.con.Unroll[l] = n
	}
	if unroll == nil && calleeCon == nil {
		// loops that were extracted into a contract-less helper: unroll directives of the root contract whose
		// ordinal lies beyond the root function's own loops are applied to the helper's loops in order
		// (soundness-neutral: an unrolled loop carries an unwinding assertion)
		if root := f.rootFctx(); root.rootCon != nil && root.fn != nil {
			nRoot := countLoops(root.fn)
			for l, n := range root.rootCon.Unroll {
				if l >= nRoot {
					c.con.Unroll[l-nRoot] = n
				}
			}
			// ... and so are loop invariants (they are evaluated with the enclosing function's names in scope)
			for l, invs := range root.rootCon.Loops {
				if l >= nRoot {
					c.con.Loops[l-nRoot] = invs
				}
			}
			c.callBlock = f.curBlock
		}
	}
	c.cur = f.cur
	c.curReach = f.curReach
	c.entry = f.entry
	c.bindParams(args)
	for i, fv := range callee.FreeVars {
		if i < len(bindings) {
			b := bindings[i]
			if p, ok := f.places[b]; ok {
				c.binds[fv] = p
			} else if p, ok := f.binds[b]; ok {
				c.binds[fv] = p
			} else {
				// captured by value (pointer to struct etc.)
				c.vals[fv] = f.val(b)
			}
		}
	}
	c.run()
	if len(c.rets) == 0 {
		f.fail("inlined %s never returns", callee.String())
	}
	// merge returns
	var states []*State
	var conds []Term
	for _, r := range c.rets {
		states = append(states, r.state)
		conds = append(conds, r.cond)
	}
	f.cur = f.mergeStates(states, conds)
	n := len(c.rets[0].vals)
	res := make([]Term, n)
	for i := 0; i < n; i++ {
		t := c.rets[len(c.rets)-1].vals[i]
		for j := len(c.rets) - 2; j >= 0; j-- {
			t = Ite(c.rets[j].cond, c.rets[j].vals[i], t)
		}
		res[i] = f.define(callee.Name()+"_ret", t)
		res[i].Ty = callee.Signature.Results().At(i).Type()
	}
	// constant-length knowledge survives the merge only for single returns
	if len(c.rets) == 1 {
		for i := 0; i < n; i++ {
			if l, ok := f.constLen[c.rets[0].vals[i].S]; ok {
				f.constLen[res[i].S] = l
			}
		}
	}
	return res
}

// countLoops: number of natural loop headers of a function (blocks that are the target of a back edge).
func countLoops(fn *ssa.Function) int {
	n := 0
	for _, b := range fn.Blocks {
		for _, p := range b.Preds {
			if b.Dominates(p) {
				n++
				break
			}
		}
	}
	return n
}

// memberPred: the membership predicate of member(e, s) for sequences of this sort ("" if there is none).
func memberPred(s *Sort) string {
	if s == nil || s.Kind != KSeq {
		return ""
	}
	switch s.Elem.Kind {
	case KInt:
		return "seq.in.Int"
	case KStr:
		return "seq.in.Str"
	case KAny:
		return "seq.in.Any"
	}
	return ""
}

func conjuncts(e Expr) []Expr {
	if b, ok := e.(*EBinary); ok && b.Op == "&&" {
		return append(conjuncts(b.X), conjuncts(b.Y)...)
	}
	return []Expr{e}
}

// inlinableDependency: dependency packages whose (loop-free, allocation-free) functions are translated in place.
func inlinableDependency(name string) bool {
	return strings.HasPrefix(name, "gonum.org/v1/gonum/spatial/r3.")
}
