package main

import (
	"fmt"
	"math/big"
	"strings"
)

// Concrete evaluation of contract expressions: an independent oracle used by
// the replay harness.  Strings are real Go strings (fields by strings.Split),
// integers are big.Int, reals are big.Rat.

type Value interface{}

type evalErr struct{ msg string }

func evalFail(format string, a ...interface{}) { panic(evalErr{fmt.Sprintf(format, a...)}) }

type EvalEnv struct {
	Vars map[string]Value
	Defs map[string]*SpecDef
}

func Eval(e Expr, env *EvalEnv) (v Value, err error) {
	defer func() {
		if r := recover(); r != nil {
			if ee, ok := r.(evalErr); ok {
				err = fmt.Errorf("%s", ee.msg)
				return
			}
			panic(r)
		}
	}()
	return eval(e, env), nil
}

func asInt(v Value) *big.Int {
	switch x := v.(type) {
	case *big.Int:
		return x
	case int64:
		return big.NewInt(x)
	case int:
		return big.NewInt(int64(x))
	}
	evalFail("expected integer, got %T", v)
	return nil
}

func asRat(v Value) *big.Rat {
	switch x := v.(type) {
	case *big.Rat:
		return x
	case *big.Int:
		return new(big.Rat).SetInt(x)
	case float64:
		r := new(big.Rat)
		r.SetFloat64(x)
		return r
	}
	evalFail("expected real, got %T", v)
	return nil
}

func asBool(v Value) bool {
	b, ok := v.(bool)
	if !ok {
		evalFail("expected bool, got %T", v)
	}
	return b
}

func isRatVal(v Value) bool {
	switch v.(type) {
	case *big.Rat, float64:
		return true
	}
	return false
}

func pow2Val(k *big.Int) *big.Int { return pow2Big(k) }

func valEq(a, b Value) bool {
	switch x := a.(type) {
	case *big.Int:
		if isRatVal(b) {
			return asRat(a).Cmp(asRat(b)) == 0
		}
		return x.Cmp(asInt(b)) == 0
	case *big.Rat, float64:
		return asRat(a).Cmp(asRat(b)) == 0
	case bool:
		return x == asBool(b)
	case string:
		if ab, ok := b.(atomVal); ok {
			return string(ab) == x
		}
		s, ok := b.(string)
		return ok && s == x
	case atomVal:
		y, ok := b.(atomVal)
		return ok && x == y
	case map[string]Value:
		y, ok := b.(map[string]Value)
		if !ok || len(x) != len(y) {
			return false
		}
		for k, v := range x {
			w, ok := y[k]
			if !ok || !valEq(v, w) {
				return false
			}
		}
		return true
	case []Value:
		y, ok := b.([]Value)
		if !ok || len(x) != len(y) {
			return false
		}
		for i := range x {
			if !valEq(x[i], y[i]) {
				return false
			}
		}
		return true
	}
	evalFail("cannot compare %T", a)
	return false
}

type atomVal string

func fieldsOf(s string) []string { return strings.Split(s, "/") }

func atomIsNum(a string) (*big.Int, bool) {
	// what strconv.ParseInt(a, 10, 64) accepts
	if a == "" {
		return nil, false
	}
	s := a
	if s[0] == '+' || s[0] == '-' {
		s = s[1:]
	}
	if s == "" {
		return nil, false
	}
	for _, c := range s {
		if c < '0' || c > '9' {
			if c == '_' {
				return nil, false
			}
			return nil, false
		}
	}
	n, ok := new(big.Int).SetString(a, 10)
	if !ok {
		return nil, false
	}
	if n.Cmp(bigMin64) < 0 || n.Cmp(bigMax64) > 0 {
		return nil, false
	}
	return n, true
}

func eval(e Expr, env *EvalEnv) Value {
	switch e := e.(type) {
	case *ENum:
		if e.Rat != nil {
			return e.Rat
		}
		return e.Int
	case *EStr:
		return e.Val
	case *EIdent:
		switch e.Name {
		case "true":
			return true
		case "false":
			return false
		case "nil":
			return nilVal{}
		}
		if v, ok := env.Vars[e.Name]; ok {
			return v
		}
		if d, ok := env.Defs[e.Name]; ok && len(d.Params) == 0 {
			return eval(d.Body, &EvalEnv{Vars: map[string]Value{}, Defs: env.Defs})
		}
		evalFail("unknown identifier %s", e.Name)
	case *EUnary:
		x := eval(e.X, env)
		if e.Op == "!" {
			return !asBool(x)
		}
		if isRatVal(x) {
			return new(big.Rat).Neg(asRat(x))
		}
		return new(big.Int).Neg(asInt(x))
	case *EBinary:
		switch e.Op {
		case "==>":
			if !asBool(eval(e.X, env)) {
				return true
			}
			return asBool(eval(e.Y, env))
		case "<==>":
			return asBool(eval(e.X, env)) == asBool(eval(e.Y, env))
		case "&&":
			return asBool(eval(e.X, env)) && asBool(eval(e.Y, env))
		case "||":
			return asBool(eval(e.X, env)) || asBool(eval(e.Y, env))
		}
		x, y := eval(e.X, env), eval(e.Y, env)
		if _, isNil := y.(nilVal); isNil {
			var isnil bool
			switch xv := x.(type) {
			case bool: // error value: true = non-nil
				isnil = !xv
			case nilVal:
				isnil = true
			default:
				evalFail("nil comparison on %T", x)
			}
			if e.Op == "==" {
				return isnil
			}
			return !isnil
		}
		switch e.Op {
		case "==":
			return valEq(x, y)
		case "!=":
			return !valEq(x, y)
		case "<", "<=", ">", ">=":
			var c int
			if isRatVal(x) || isRatVal(y) {
				c = asRat(x).Cmp(asRat(y))
			} else {
				c = asInt(x).Cmp(asInt(y))
			}
			switch e.Op {
			case "<":
				return c < 0
			case "<=":
				return c <= 0
			case ">":
				return c > 0
			}
			return c >= 0
		case "+":
			if s, ok := x.(string); ok {
				return s + y.(string)
			}
			if isRatVal(x) || isRatVal(y) {
				return new(big.Rat).Add(asRat(x), asRat(y))
			}
			return new(big.Int).Add(asInt(x), asInt(y))
		case "-":
			if isRatVal(x) || isRatVal(y) {
				return new(big.Rat).Sub(asRat(x), asRat(y))
			}
			return new(big.Int).Sub(asInt(x), asInt(y))
		case "*":
			if isRatVal(x) || isRatVal(y) {
				return new(big.Rat).Mul(asRat(x), asRat(y))
			}
			return new(big.Int).Mul(asInt(x), asInt(y))
		case "/":
			d := asRat(y)
			if d.Sign() == 0 {
				evalFail("division by zero")
			}
			return new(big.Rat).Quo(asRat(x), d)
		case "<<":
			return new(big.Int).Mul(asInt(x), pow2Val(asInt(y)))
		case ">>":
			return floorDiv(asInt(x), pow2Val(asInt(y)))
		}
	case *EIndex:
		x := eval(e.X, env)
		i := asInt(eval(e.I, env))
		seq, ok := x.([]Value)
		if !ok {
			evalFail("indexing %T", x)
		}
		if !i.IsInt64() || i.Int64() < 0 || i.Int64() >= int64(len(seq)) {
			evalFail("index %s out of range (len %d)", i, len(seq))
		}
		return seq[i.Int64()]
	case *ESel:
		x := eval(e.X, env)
		m, ok := x.(map[string]Value)
		if !ok {
			evalFail("field %s of %T", e.F, x)
		}
		v, ok := m[e.F]
		if !ok {
			evalFail("no field %s", e.F)
		}
		return v
	case *EQuant:
		return evalQuant(e, env, 0)
	case *ECall:
		return evalCall(e, env)
	}
	evalFail("cannot evaluate %T", e)
	return nil
}

type nilVal struct{}

func evalCall(e *ECall, env *EvalEnv) Value {
	if e.Fn == "old" {
		return eval(e.Args[0], env)
	}
	var a []Value
	for _, x := range e.Args {
		a = append(a, eval(x, env))
	}
	switch e.Fn {
	case "pow2":
		return pow2Val(asInt(a[0]))
	case "fdiv":
		if asInt(a[1]).Sign() <= 0 {
			evalFail("fdiv by non-positive")
		}
		return floorDiv(asInt(a[0]), asInt(a[1]))
	case "fmod":
		if asInt(a[1]).Sign() <= 0 {
			evalFail("fmod by non-positive")
		}
		return new(big.Int).Mod(asInt(a[0]), asInt(a[1]))
	case "tdiv":
		return truncDiv(asInt(a[0]), asInt(a[1]))
	case "tmod":
		return new(big.Int).Rem(asInt(a[0]), asInt(a[1]))
	case "ashift":
		s := asInt(a[1])
		if s.Sign() >= 0 {
			return new(big.Int).Mul(asInt(a[0]), pow2Val(s))
		}
		return floorDiv(asInt(a[0]), pow2Val(new(big.Int).Neg(s)))
	case "anc":
		return floorDiv(asInt(a[0]), pow2Val(asInt(a[1])))
	case "min", "max":
		if isRatVal(a[0]) || isRatVal(a[1]) {
			x, y := asRat(a[0]), asRat(a[1])
			if (x.Cmp(y) <= 0) == (e.Fn == "min") {
				return x
			}
			return y
		}
		x, y := asInt(a[0]), asInt(a[1])
		if (x.Cmp(y) <= 0) == (e.Fn == "min") {
			return x
		}
		return y
	case "abs":
		if isRatVal(a[0]) {
			return new(big.Rat).Abs(asRat(a[0]))
		}
		return new(big.Int).Abs(asInt(a[0]))
	case "in64":
		x := asInt(a[0])
		return x.Cmp(bigMin64) >= 0 && x.Cmp(bigMax64) <= 0
	case "floor":
		r := asRat(a[0])
		return floorDiv(r.Num(), r.Denom())
	case "ceil":
		r := asRat(a[0])
		return new(big.Int).Neg(floorDiv(new(big.Int).Neg(r.Num()), r.Denom()))
	case "trunc":
		r := asRat(a[0])
		return truncDiv(r.Num(), r.Denom())
	case "real", "i2f":
		return asRat(a[0])
	case "isint":
		return asRat(a[0]).IsInt()
	case "rpow2":
		k := asInt(a[0])
		if k.Sign() >= 0 {
			return new(big.Rat).SetInt(pow2Val(k))
		}
		return new(big.Rat).SetFrac(big.NewInt(1), pow2Val(new(big.Int).Neg(k)))
	case "ite":
		if asBool(a[0]) {
			return a[1]
		}
		return a[2]
	case "len":
		switch x := a[0].(type) {
		case []Value:
			return big.NewInt(int64(len(x)))
		}
		evalFail("len of %T", a[0])
	case "nf":
		return big.NewInt(int64(len(fieldsOf(a[0].(string)))))
	case "fld":
		fs := fieldsOf(a[0].(string))
		i := asInt(a[1]).Int64()
		if i < 0 || i >= int64(len(fs)) {
			return atomVal("\x00none")
		}
		return atomVal(fs[i])
	case "sfld":
		fs := fieldsOf(a[0].(string))
		i := asInt(a[1]).Int64()
		if i < 0 || i >= int64(len(fs)) {
			evalFail("sfld out of range")
		}
		return fs[i]
	case "isnum":
		switch x := a[0].(type) {
		case atomVal:
			_, ok := atomIsNum(string(x))
			return ok
		case string:
			if strings.Contains(x, "/") {
				return false
			}
			_, ok := atomIsNum(x)
			return ok
		}
	case "val":
		var s string
		switch x := a[0].(type) {
		case atomVal:
			s = string(x)
		case string:
			s = x
		}
		n, ok := atomIsNum(s)
		if !ok {
			return big.NewInt(0)
		}
		return n
	case "num":
		return atomVal(asInt(a[0]).String())
	case "fmtint":
		return asInt(a[0]).String()
	case "wf":
		return true
	case "ext", "sid", "hid", "vid":
		var parts []string
		for _, x := range a {
			parts = append(parts, asInt(x).String())
		}
		return strings.Join(parts, "/")
	case "join":
		return a[0].(string) + "/" + a[1].(string)
	case "isext":
		fs := fieldsOf(a[0].(string))
		if len(fs) != 5 {
			return false
		}
		for _, f := range fs {
			if _, ok := atomIsNum(f); !ok {
				return false
			}
		}
		return true
	case "in":
		seq, ok := a[1].([]Value)
		if !ok {
			evalFail("in on %T", a[1])
		}
		for _, x := range seq {
			if valEq(x, a[0]) {
				return true
			}
		}
		return false
	case "nodup":
		seq, ok := a[0].([]Value)
		if !ok {
			evalFail("nodup on %T", a[0])
		}
		if len(seq) > 3000 {
			evalFail("sequence too long for concrete evaluation")
		}
		for i := range seq {
			for j := i + 1; j < len(seq); j++ {
				if valEq(seq[i], seq[j]) {
					return false
				}
			}
		}
		return true
	}
	if d, ok := env.Defs[e.Fn]; ok {
		c := &EvalEnv{Vars: map[string]Value{}, Defs: env.Defs}
		for i, p := range d.Params {
			c.Vars[p] = a[i]
		}
		return eval(d.Body, c)
	}
	evalFail("cannot evaluate spec function %s", e.Fn)
	return nil
}

// evalQuant evaluates a quantifier over the finite relevant domain: integer
// binders range over -1..maxLen+1 (all contracts guard indices by 0<=k<len),
// element binders over every element of every sequence in scope (membership
// clauses are false on both sides outside that set).
func evalQuant(q *EQuant, env *EvalEnv, vi int) Value {
	if vi == len(q.Vars) {
		return asBool(eval(q.Body, env))
	}
	var dom []Value
	for _, v := range env.Vars {
		if sq, ok := v.([]Value); ok && len(sq) > 3000 {
			evalFail("sequence too long for concrete evaluation")
		}
	}
	if q.Sorts[vi] == "int" {
		maxLen := 0
		for _, v := range env.Vars {
			if s, ok := v.([]Value); ok && len(s) > maxLen {
				maxLen = len(s)
			}
		}
		for k := -1; k <= maxLen+1; k++ {
			dom = append(dom, big.NewInt(int64(k)))
		}
	} else {
		seen := map[string]bool{}
		for _, v := range env.Vars {
			if s, ok := v.([]Value); ok {
				for _, e := range s {
					key := fmt.Sprintf("%T:%v", e, e)
					if !seen[key] {
						seen[key] = true
						dom = append(dom, e)
					}
				}
			}
		}
	}
	child := &EvalEnv{Vars: map[string]Value{}, Defs: env.Defs}
	for k, v := range env.Vars {
		child.Vars[k] = v
	}
	for _, d := range dom {
		child.Vars[q.Vars[vi]] = d
		r := asBool(evalQuant(q, child, vi+1))
		if q.Forall && !r {
			return false
		}
		if !q.Forall && r {
			return true
		}
	}
	return q.Forall
}
