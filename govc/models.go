package main

import (
	"encoding/json"
	"fmt"
	"os"
	"os/exec"
	"path/filepath"
	"sort"
	"strings"
	"time"
)

// Model tests: /verif/models/*_test.go are Go tests that compare an ASSUMED contract (a trusted model of
// third-party or standard-library code) with the real code on bounded random inputs.  They are injected
// into the package named in their header with -overlay (nothing is written to the repository) and run on
// every check of the properties they list.  A failing model test is a violation (the assumption the proof
// rests on is false for the code that runs); a passing one is reported as a *bounded* check, never as proof.
//
// header (first line):  // govc-model: props=C05,C09 dir=detector bound=<free text without spaces>
func (vc *VC) runModelTests(verif, prop string, ex *ExtraChecks) {
	files, _ := filepath.Glob(filepath.Join(verif, "models", "*_test.go"))
	sort.Strings(files)
	for _, file := range files {
		data, err := os.ReadFile(file)
		if err != nil {
			continue
		}
		first := strings.SplitN(string(data), "\n", 2)[0]
		if !strings.HasPrefix(first, "// govc-model:") {
			continue
		}
		meta := map[string]string{}
		for _, kv := range strings.Fields(strings.TrimPrefix(first, "// govc-model:")) {
			if i := strings.Index(kv, "="); i > 0 {
				meta[kv[:i]] = kv[i+1:]
			}
		}
		applies := false
		for _, p := range strings.Split(meta["props"], ",") {
			if p == prop {
				applies = true
			}
		}
		if !applies || meta["dir"] == "" {
			continue
		}
		name := filepath.Base(file)
		target := filepath.Join(vc.repo, meta["dir"], "zz_govc_"+name)
		tmp, err := os.MkdirTemp("", "govc-model")
		if err != nil {
			continue
		}
		ov, _ := json.Marshal(map[string]interface{}{"Replace": map[string]string{target: file}})
		ovFile := filepath.Join(tmp, "overlay.json")
		os.WriteFile(ovFile, ov, 0o644)
		cmd := exec.Command("go", "test", "-tags=verif", "-overlay", ovFile, "-vet=off", "-count=1", "-timeout", "120s", "-run", "^TestGovcModel", "./"+meta["dir"])
		cmd.Dir = vc.repo
		cmd.Env = append(os.Environ(), "GOFLAGS=-mod=mod", "GOPROXY=off", "GOSUMDB=off", "GOTOOLCHAIN=local", "GOCACHE="+goCacheDir())
		start := time.Now()
		out, runErr := cmd.CombinedOutput()
		os.RemoveAll(tmp)
		entry := map[string]interface{}{"check": "model test " + name, "kind": "bounded validation of an assumed contract (not a proof)", "bound": meta["bound"], "package": meta["dir"], "wall_s": time.Since(start).Seconds()}
		assumption := fmt.Sprintf("assumed contract validated only by a bounded test: %s (%s)", name, meta["bound"])
		if meta["kind"] == "function" {
			// a function of the repository that is outside the verified subset: bounded stand-in, labelled as such
			entry["check"] = "bounded check " + name
			entry["kind"] = "bounded check of a repository function outside the verified subset (stand-in, not a proof; never counted as proved)"
			assumption = fmt.Sprintf("NOT PROVED, bounded stand-in only: %s (%s)", name, meta["bound"])
		}
		if runErr == nil && strings.Contains(string(out), "ok") {
			entry["result"] = "agrees with the real code on every generated case"
		} else {
			entry["result"] = "REFUTED or not runnable"
			ex.Violations = append(ex.Violations, &Violation{
				Obligation: "model/" + name + "/A/assumed-contract-agrees-with-real-code", Kind: "A", Func: "model " + name,
				Clause: "the assumed contract agrees with the real dependency on the bounded random inputs of " + name,
				Status: "refuted", Reason: firstLines(string(out), 20),
				Replay: &ReplayOutcome{Confirmed: strings.Contains(string(out), "GOVC-MODEL-REFUTED"), Output: firstLines(string(out), 20), Test: string(data), Note: "model test run against the real code with go test -overlay"},
			})
		}
		ex.Bounded = append(ex.Bounded, entry)
		ex.Assumptions = append(ex.Assumptions, assumption)
	}
}
