package main

import (
	"fmt"
	"go/token"
	"go/types"
	"sort"
	"strings"

	"golang.org/x/tools/go/ssa"
	"golang.org/x/tools/go/ssa/ssautil"
)

// Frame (F) and order-determinism (D) obligations: discharged by a provenance
// analysis on SSA, not by SMT (DESIGN 2.4).
//
// F: every Store / MapUpdate must target memory that is
//   (a) allocated in the same function (Alloc, new, composite literal, make, append result),
//   (b) returned fresh by a repository constructor, or
//   (c) reached through the receiver of a declared mutator (Set*/Reset*/Merge methods).
//   Stores to package-level variables are allowed in init only.
// D: a slice whose element order comes from ranging over a map is "unordered";
//   indexing it with a constant observes that order and needs a proof that the
//   slice has at most one element.

type storeSite struct {
	fn     *ssa.Function
	pos    token.Pos
	what   string
	origin string // local, fresh, receiver, param:<name>, global:<name>, unknown
	ok     bool
}

func isMutatorName(n string) bool {
	return strings.HasPrefix(n, "Set") || strings.HasPrefix(n, "Reset") || n == "Merge"
}

func (vc *VC) pointerOrigin(fn *ssa.Function, v ssa.Value, depth int) string {
	return vc.pointerOriginV(fn, v, depth, map[ssa.Value]bool{})
}

func (vc *VC) pointerOriginV(fn *ssa.Function, v ssa.Value, depth int, visiting map[ssa.Value]bool) string {
	if depth > 24 {
		return "unknown"
	}
	if visiting[v] {
		return "local" // a cycle through phi/append: neutral, the other edges decide
	}
	visiting[v] = true
	defer delete(visiting, v)
	switch x := v.(type) {
	case *ssa.Alloc, *ssa.MakeSlice, *ssa.MakeMap:
		return "local"
	case *ssa.Global:
		return "global:" + x.Name()
	case *ssa.Parameter:
		if fn.Signature.Recv() != nil && len(fn.Params) > 0 && fn.Params[0] == x && isMutatorName(fn.Name()) {
			return "receiver"
		}
		return "param:" + x.Name()
	case *ssa.FreeVar:
		return "local" // captured variable of the enclosing function
	case *ssa.FieldAddr:
		return vc.pointerOriginV(fn, x.X, depth+1, visiting)
	case *ssa.IndexAddr:
		return vc.pointerOriginV(fn, x.X, depth+1, visiting)
	case *ssa.Slice:
		return vc.pointerOriginV(fn, x.X, depth+1, visiting)
	case *ssa.ChangeType:
		return vc.pointerOriginV(fn, x.X, depth+1, visiting)
	case *ssa.Convert:
		return vc.pointerOriginV(fn, x.X, depth+1, visiting)
	case *ssa.UnOp:
		if x.Op == token.MUL {
			// a pointer/slice/map loaded from memory: the container decides
			if fv, ok := x.X.(*ssa.FreeVar); ok && fn.Parent() != nil {
				// a captured variable: its contents are whatever the enclosing function and its closures store there
				if cell := bindingOf(fn, fv); cell != nil {
					return vc.cellContents(fn.Parent(), cell, depth+1, visiting)
				}
				return "unknown"
			}
			o := vc.pointerOriginV(fn, x.X, depth+1, visiting)
			if o == "local" || o == "fresh" {
				// loaded from a local object: still could alias shared memory if the field was
				// initialised from a parameter; look at what was stored there
				if al, ok := x.X.(*ssa.Alloc); ok {
					return vc.cellContents(fn, al, depth+1, visiting)
				}
				return vc.loadedFrom(fn, x.X, depth+1)
			}
			return o
		}
	case *ssa.Phi:
		res := "local"
		for _, e := range x.Edges {
			o := vc.pointerOriginV(fn, e, depth+1, visiting)
			if o != "local" && o != "fresh" {
				return o
			}
		}
		return res
	case *ssa.Call:
		if b, ok := x.Call.Value.(*ssa.Builtin); ok && b.Name() == "append" && len(x.Call.Args) > 0 && cappedSlice(x.Call.Args[0]) {
			return "local" // append(s[:n:n], ...) always reallocates
		}
		if b, ok := x.Call.Value.(*ssa.Builtin); ok && b.Name() == "append" {
			// append may write into the backing array of its first argument only beyond len; the
			// result shares it.  For frame purposes the result has the provenance of the first argument
			// unless that is nil/empty literal.
			if len(x.Call.Args) > 0 {
				return vc.pointerOriginV(fn, x.Call.Args[0], depth+1, visiting)
			}
			return "local"
		}
		if c := x.Call.StaticCallee(); c != nil {
			if vc.resultFresh(c, 0, 0) {
				return "fresh"
			}
			return "call:" + c.Name()
		}
		return "unknown"
	case *ssa.Extract:
		if call, ok := x.Tuple.(*ssa.Call); ok {
			if c := call.Call.StaticCallee(); c != nil && vc.resultFresh(c, x.Index, 0) {
				return "fresh"
			}
			if c := call.Call.StaticCallee(); c != nil {
				return "call:" + c.Name()
			}
		}
		return "unknown"
	case *ssa.Const:
		return "local" // nil
	case *ssa.MakeInterface:
		return vc.pointerOriginV(fn, x.X, depth+1, visiting)
	}
	return "unknown"
}

// cappedSlice: v is s[lo:n:n] (capacity cut to the length), so an append to it cannot write into s's array.
func cappedSlice(v ssa.Value) bool {
	sl, ok := v.(*ssa.Slice)
	return ok && sl.Max != nil && sl.High != nil && sameValue(sl.Max, sl.High)
}

func sameValue(a, b ssa.Value) bool {
	if a == b {
		return true
	}
	ca, ok1 := a.(*ssa.Call)
	cb, ok2 := b.(*ssa.Call)
	if ok1 && ok2 {
		ba, ok3 := ca.Call.Value.(*ssa.Builtin)
		bb, ok4 := cb.Call.Value.(*ssa.Builtin)
		if ok3 && ok4 && ba.Name() == "len" && bb.Name() == "len" && len(ca.Call.Args) == 1 && len(cb.Call.Args) == 1 {
			return ca.Call.Args[0] == cb.Call.Args[0]
		}
	}
	return false
}

// bindingOf: the variable of the enclosing function that free variable fv of closure fn refers to.
func bindingOf(fn *ssa.Function, fv *ssa.FreeVar) ssa.Value {
	idx := -1
	for i, v := range fn.FreeVars {
		if v == fv {
			idx = i
		}
	}
	if idx < 0 || fn.Parent() == nil {
		return nil
	}
	for _, b := range fn.Parent().Blocks {
		for _, ins := range b.Instrs {
			if mc, ok := ins.(*ssa.MakeClosure); ok && mc.Fn == fn && idx < len(mc.Bindings) {
				return mc.Bindings[idx]
			}
		}
	}
	return nil
}

// cellContents: provenance of the value held by a local variable cell (an Alloc of function owner that may be
// captured by closures): the join over everything stored into it by the owner and by its closures.
func (vc *VC) cellContents(owner *ssa.Function, cell ssa.Value, depth int, visiting map[ssa.Value]bool) string {
	if visiting[cell] {
		return "local"
	}
	visiting[cell] = true
	defer delete(visiting, cell)
	res := "local"
	scan := func(fn *ssa.Function, addr ssa.Value) string {
		for _, b := range fn.Blocks {
			for _, ins := range b.Instrs {
				st, ok := ins.(*ssa.Store)
				if !ok || st.Addr != addr {
					continue
				}
				o := vc.pointerOriginV(fn, st.Val, depth+1, visiting)
				if o != "local" && o != "fresh" {
					return o
				}
			}
		}
		return "local"
	}
	if o := scan(owner, cell); o != "local" {
		return o
	}
	for _, anon := range owner.AnonFuncs {
		for i, fv := range anon.FreeVars {
			_ = i
			if bindingOf(anon, fv) == cell {
				if o := scan(anon, fv); o != "local" {
					return o
				}
			}
		}
	}
	return res
}

// loadedFrom: the value loaded from a field/cell of a local object is whatever was stored there.
func (vc *VC) loadedFrom(fn *ssa.Function, addr ssa.Value, depth int) string {
	res := "local"
	found := false
	for _, b := range fn.Blocks {
		for _, ins := range b.Instrs {
			st, ok := ins.(*ssa.Store)
			if !ok {
				continue
			}
			if sameAddr(st.Addr, addr) {
				found = true
				o := vc.pointerOrigin(fn, st.Val, depth+1)
				if o != "local" && o != "fresh" {
					return o
				}
			}
		}
	}
	if !found {
		// zero value of a freshly allocated object, or initialised by a callee
		return res
	}
	return res
}

func sameAddr(a, b ssa.Value) bool {
	if a == b {
		return true
	}
	fa, ok1 := a.(*ssa.FieldAddr)
	fb, ok2 := b.(*ssa.FieldAddr)
	if ok1 && ok2 {
		return fa.Field == fb.Field && sameAddr(fa.X, fb.X)
	}
	return false
}

// resultFresh: result idx of a repository function is always freshly allocated (or nil).
func (vc *VC) resultFresh(fn *ssa.Function, idx int, depth int) bool {
	if depth > 4 || fn.Blocks == nil {
		return false
	}
	sawRet := false
	for _, b := range fn.Blocks {
		for _, ins := range b.Instrs {
			ret, ok := ins.(*ssa.Return)
			if !ok || idx >= len(ret.Results) {
				continue
			}
			sawRet = true
			o := vc.pointerOrigin(fn, ret.Results[idx], depth+6)
			if o != "local" && o != "fresh" {
				return false
			}
		}
	}
	return sawRet
}

type FrameReport struct {
	Sites      []storeSite
	Violations []storeSite
	Functions  int
}

func (vc *VC) repoFunctions() []*ssa.Function {
	var fns []*ssa.Function
	for fn := range ssautil.AllFunctions(vc.prog) {
		if fn.Blocks == nil || fn.Synthetic != "" && !strings.HasPrefix(fn.Synthetic, "instance") {
			continue
		}
		if _, ok := vc.dirOf(fn); !ok {
			continue
		}
		if fn.Pkg == nil && fn.Origin() == nil && fn.Parent() == nil {
			continue
		}
		fns = append(fns, fn)
	}
	sort.Slice(fns, func(i, j int) bool { return fns[i].String() < fns[j].String() })
	return fns
}

// FrameCheck runs the F rule over every function of the repository packages.
func (vc *VC) FrameCheck() *FrameReport {
	rep := &FrameReport{}
	for _, fn := range vc.repoFunctions() {
		rep.Functions++
		isInit := fn.Name() == "init" || strings.HasPrefix(fn.Name(), "init#")
		for _, b := range fn.Blocks {
			for _, ins := range b.Instrs {
				var addr ssa.Value
				what := ""
				switch x := ins.(type) {
				case *ssa.Store:
					addr, what = x.Addr, "store"
				case *ssa.MapUpdate:
					addr, what = x.Map, "map update"
				case *ssa.Call:
					// standard-library functions that write through an argument
					if c := x.Call.StaticCallee(); c != nil {
						name := c.String()
						if o := c.Origin(); o != nil {
							name = o.String()
						}
						switch name {
						case "sort.Float64s", "sort.Ints", "sort.Strings", "sort.Slice", "sort.SliceStable", "sort.Sort", "sort.Stable",
							"slices.Sort", "slices.SortFunc", "slices.SortStableFunc", "slices.Reverse", "slices.Compact", "slices.CompactFunc",
							"slices.Insert", "slices.Delete", "slices.DeleteFunc", "slices.Replace", "math/rand.Shuffle":
							if len(x.Call.Args) > 0 {
								addr, what = x.Call.Args[0], name
							}
						}
					}
					if bi, ok := x.Call.Value.(*ssa.Builtin); ok && bi.Name() == "copy" {
						addr, what = x.Call.Args[0], "copy"
					}
					if bi, ok := x.Call.Value.(*ssa.Builtin); ok && bi.Name() == "append" && len(x.Call.Args) > 0 {
						// append writes into the backing array of its first argument when it has spare capacity
						if _, isNil := x.Call.Args[0].(*ssa.Const); !isNil && !cappedSlice(x.Call.Args[0]) {
							addr, what = x.Call.Args[0], "append into spare capacity"
						}
					}
				}
				if addr == nil {
					continue
				}
				o := vc.pointerOrigin(fn, addr, 0)
				site := storeSite{fn: fn, pos: ins.Pos(), what: what, origin: o}
				switch {
				case o == "local" || o == "fresh" || o == "receiver":
					site.ok = true
				case strings.HasPrefix(o, "global:") && isInit:
					site.ok = true
				}
				if site.pos == token.NoPos {
					site.pos = fn.Pos()
				}
				rep.Sites = append(rep.Sites, site)
				if !site.ok {
					rep.Violations = append(rep.Violations, site)
				}
			}
		}
	}
	return rep
}

// GlobalWriteScan: stores to package-level variables (outside init) in the
// dependency packages the repository calls into.
func (vc *VC) GlobalWriteScan(pkgPrefixes []string) (sites int, viol []string) {
	reach := vc.reachableFromRepo()
	for fn := range ssautil.AllFunctions(vc.prog) {
		if fn.Blocks == nil || fn.Pkg == nil || !reach[fn] {
			continue
		}
		path := fn.Pkg.Pkg.Path()
		match := false
		for _, p := range pkgPrefixes {
			if strings.HasPrefix(path, p) {
				match = true
			}
		}
		if !match {
			continue
		}
		isInit := fn.Name() == "init" || strings.HasPrefix(fn.Name(), "init#")
		for _, b := range fn.Blocks {
			for _, ins := range b.Instrs {
				var addr ssa.Value
				switch x := ins.(type) {
				case *ssa.Store:
					addr = x.Addr
				case *ssa.MapUpdate:
					addr = x.Map
				default:
					continue
				}
				sites++
				root := addr
				for {
					switch y := root.(type) {
					case *ssa.FieldAddr:
						root = y.X
						continue
					case *ssa.IndexAddr:
						root = y.X
						continue
					case *ssa.UnOp:
						if y.Op == token.MUL {
							root = y.X
							continue
						}
					}
					break
				}
				if g, ok := root.(*ssa.Global); ok && !isInit {
					viol = append(viol, fmt.Sprintf("%s writes package-level %s at %s", fn.String(), g.Name(), vc.fset.Position(ins.Pos())))
				}
			}
		}
	}
	sort.Strings(viol)
	return sites, viol
}

// ---------------------------------------------------------------- D analysis

type orderSink struct {
	fn   *ssa.Function
	pos  token.Pos
	desc string
}

// OrderCheck: finds constant-index observations of slices whose order comes from map iteration.
func (vc *VC) OrderCheck() (sources int, sinks []orderSink, unorderedFns []string) {
	fns := vc.repoFunctions()
	unordered := map[*ssa.Function]bool{} // functions returning an unordered slice (result 0)
	tainted := func(fn *ssa.Function) map[ssa.Value]bool {
		t := map[ssa.Value]bool{}
		changed := true
		for changed {
			changed = false
			mark := func(v ssa.Value) {
				if !t[v] {
					t[v] = true
					changed = true
				}
			}
			for _, b := range fn.Blocks {
				for _, ins := range b.Instrs {
					switch x := ins.(type) {
					case *ssa.Call:
						if bi, ok := x.Call.Value.(*ssa.Builtin); ok && bi.Name() == "append" {
							if t[x.Call.Args[0]] || (len(x.Call.Args) > 1 && t[x.Call.Args[1]]) {
								mark(x)
							}
							// appended inside a loop that ranges over a map
							if inMapRangeLoop(x) {
								mark(x)
							}
						} else if c := x.Call.StaticCallee(); c != nil {
							if unordered[c] || (c.Origin() != nil && unordered[c.Origin()]) {
								if _, isSlice := x.Type().Underlying().(*types.Slice); isSlice {
									mark(x)
								}
							}
						}
					case *ssa.Extract:
						if call, ok := x.Tuple.(*ssa.Call); ok && x.Index == 0 {
							if c := call.Call.StaticCallee(); c != nil && (unordered[c] || (c.Origin() != nil && unordered[c.Origin()])) {
								if _, isSlice := x.Type().Underlying().(*types.Slice); isSlice {
									mark(x)
								}
							}
						}
					case *ssa.Phi:
						for _, e := range x.Edges {
							if t[e] {
								mark(x)
							}
						}
					case *ssa.Slice:
						if t[x.X] {
							mark(x)
						}
					case *ssa.ChangeType:
						if t[x.X] {
							mark(x)
						}
					}
				}
			}
		}
		return t
	}
	// fixpoint over functions
	for iter := 0; iter < 6; iter++ {
		changed := false
		for _, fn := range fns {
			t := tainted(fn)
			for _, b := range fn.Blocks {
				for _, ins := range b.Instrs {
					if ret, ok := ins.(*ssa.Return); ok && len(ret.Results) > 0 && t[ret.Results[0]] {
						if !unordered[fn] {
							unordered[fn] = true
							changed = true
						}
					}
				}
			}
		}
		if !changed {
			break
		}
	}
	vc.orderTaint = map[*ssa.Function]map[ssa.Value]bool{}
	for _, fn := range fns {
		t := tainted(fn)
		vc.orderTaint[fn] = t
		sources += len(t)
		for _, b := range fn.Blocks {
			for _, ins := range b.Instrs {
				ia, ok := ins.(*ssa.IndexAddr)
				if !ok || !t[ia.X] {
					continue
				}
				if _, isConst := ia.Index.(*ssa.Const); isConst {
					sinks = append(sinks, orderSink{fn: fn, pos: ia.Pos(), desc: fmt.Sprintf("constant index %s on a slice ordered by map iteration", ia.Index.Name())})
				}
			}
		}
	}
	for fn := range unordered {
		unorderedFns = append(unorderedFns, fn.String())
	}
	sort.Strings(unorderedFns)
	return sources, sinks, unorderedFns
}

func inMapRangeLoop(v ssa.Instruction) bool {
	b := v.Block()
	// the block is inside a loop whose header contains a Next on a map iterator
	fn := b.Parent()
	for _, h := range fn.Blocks {
		hasNext := false
		for _, ins := range h.Instrs {
			if nx, ok := ins.(*ssa.Next); ok && !nx.IsString {
				hasNext = true
			}
		}
		if !hasNext {
			continue
		}
		// natural loop membership: h dominates b and b reaches h
		if h.Dominates(b) && reaches(b, h, map[*ssa.BasicBlock]bool{}) {
			return true
		}
	}
	return false
}

func reaches(from, to *ssa.BasicBlock, seen map[*ssa.BasicBlock]bool) bool {
	if from == to {
		return true
	}
	if seen[from] {
		return false
	}
	seen[from] = true
	for _, s := range from.Succs {
		if reaches(s, to, seen) {
			return true
		}
	}
	return false
}

// reachableFromRepo: functions reachable from the repository's functions by
// static calls (interface method calls are resolved to every method of that
// name in the loaded program: a sound over-approximation for this purpose).
func (vc *VC) reachableFromRepo() map[*ssa.Function]bool {
	all := ssautil.AllFunctions(vc.prog)
	byMethod := map[string][]*ssa.Function{}
	for fn := range all {
		if fn.Signature.Recv() != nil {
			byMethod[fn.Name()] = append(byMethod[fn.Name()], fn)
		}
	}
	reach := map[*ssa.Function]bool{}
	var work []*ssa.Function
	for _, fn := range vc.repoFunctions() {
		reach[fn] = true
		work = append(work, fn)
	}
	for len(work) > 0 {
		fn := work[len(work)-1]
		work = work[:len(work)-1]
		add := func(c *ssa.Function) {
			if c != nil && !reach[c] {
				reach[c] = true
				work = append(work, c)
			}
		}
		for _, b := range fn.Blocks {
			for _, ins := range b.Instrs {
				switch x := ins.(type) {
				case ssa.CallInstruction:
					com := x.Common()
					if c := com.StaticCallee(); c != nil {
						add(c)
					} else if com.IsInvoke() {
						for _, m := range byMethod[com.Method.Name()] {
							add(m)
						}
					}
				}
				// function values created here may be called later
				if mc, ok := ins.(*ssa.MakeClosure); ok {
					if c, ok := mc.Fn.(*ssa.Function); ok {
						add(c)
					}
				}
				for _, op := range ins.Operands(nil) {
					if op == nil || *op == nil {
						continue
					}
					if c, ok := (*op).(*ssa.Function); ok {
						add(c)
					}
				}
			}
		}
	}
	return reach
}
