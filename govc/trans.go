package main

import (
	"fmt"
	"go/constant"
	"go/token"
	"go/types"
	"math/big"
	"sort"
	"strings"
	"sync"

	"golang.org/x/tools/go/ssa"
)

type Obligation struct {
	Name      string  `json:"name"`
	Kind      string  `json:"kind"`
	Goal      string  `json:"-"`
	ExpectSat bool    `json:"expect_sat,omitempty"`
	Pos       string  `json:"pos,omitempty"`
	Desc      string  `json:"desc,omitempty"`
	Func      string  `json:"func"`
	Ideal     bool    `json:"ideal,omitempty"`
	Clause    *Clause `json:"-"`
}

type Item struct {
	Text string
	Ob   *Obligation
	Cut  bool // an assumption of a fact that was just proved (cut): never hoisted above its own obligation
}

type ParamDecl struct {
	Name   string // SMT name
	Source string // Go/contract name
	Sort   *Sort
	Def    string // non-empty: the parameter is defined by this term (shaped parameter)
}

type Script struct {
	FuncName string
	Params   []ParamDecl
	Items    []Item
	Con      *Contract
	Lemma    *Lemma
	Splits   []Split
	Trusted  map[string]bool // trusted/assumed things used
	Pos      string
	Ideal    bool

	parseOnce sync.Once
	parsed    []*sx
	Structs   map[string][]string
	// loop-carried variables that are case-split: SMT constant name -> split variable
	SplitConsts map[string]string
	Preamble    string          // quantified facts about the pure symbols this script mentions
	CalledPure  map[string]bool // pure symbols whose contract is already assumed at a call site
	QuickStride int
	Tactic      string // "nlsat": obligations are discharged with z3's nonlinear real tactic
}

func (s *Script) emit(format string, a ...interface{}) {
	s.Items = append(s.Items, Item{Text: fmt.Sprintf(format, a...)})
}

type State struct {
	cells map[string]Term
}

func (s *State) clone() *State {
	n := &State{cells: make(map[string]Term, len(s.cells))}
	for k, v := range s.cells {
		n.cells[k] = v
	}
	return n
}

type PlaceKind int

const (
	PCell PlaceKind = iota
	PField
	PElem      // element of an array-typed place
	PSliceElem // element of a slice value (read only)
	PGlobal
)

type Place struct {
	Kind  PlaceKind
	Key   string // PCell, PGlobal: state key
	Sort  *Sort  // sort of the stored value
	Ty    types.Type
	Ref   Term // PField
	HKey  string
	Base  *Place // PElem
	Index Term
	Seq   Term // PSliceElem
}

type fctx struct {
	callRes   map[string][]Term // results of the last contract-call of each callee (root context; $result)
	callBlock *ssa.BasicBlock   // inlined helper: the block of the enclosing function that contains the call
	vc        *VC
	fn        *ssa.Function
	con       *Contract
	sc        *Script
	pfx       string
	depth     int
	vals      map[ssa.Value]Term
	tuples    map[ssa.Value][]Term
	places    map[ssa.Value]*Place
	mapKey    map[ssa.Value]string // MakeMap value -> state key
	clos      map[ssa.Value]*ssa.MakeClosure
	ranges    map[ssa.Value]*rangeInfo

	reach     map[*ssa.BasicBlock]Term
	exit      map[*ssa.BasicBlock]*State
	cur       *State
	curReach  Term
	curBlock  *ssa.BasicBlock
	entry     *State // pre-state (for old())
	loopOrd   map[*ssa.BasicBlock]int
	backEdges map[[2]int]bool
	inLoop    map[*ssa.BasicBlock][]*ssa.BasicBlock // header -> blocks of natural loop

	// results
	rets          []retInfo
	inline        bool
	obPrefix      string
	counter       *int
	callOrd       int
	paramTerms    map[string]Term
	ideal         bool
	emitSeq       string               // state key of ghost emitted sequence (emit idiom)
	binds         map[ssa.Value]*Place // closure free-variable bindings
	parent        *fctx
	validTerm     *Term
	rootCon       *Contract
	lemmaReveal   map[string]bool
	ghosts        map[string]Term
	pendingSplits []string
	entryState    *State
	entryReach    Term
	unrolled      map[*ssa.BasicBlock]bool
	unrolling     map[*ssa.BasicBlock]bool
	exitOverride  map[[2]int]Term
	edgeOv        map[[2]int]*edgeOverride
	digits4       map[string]Term // string terms that are the base-4 digits of an integer
	ndigits       *Term
	pow2Vals      map[string]bool // real terms known to be exact powers of two
	constLen      map[string]int  // sequence terms of statically known length
}

type retInfo struct {
	cond  Term
	vals  []Term
	state *State
	pos   token.Pos
}

type rangeInfo struct {
	isMap   bool
	mapTerm Term
	ks, inv string
	iterKey string
	keySort *Sort
	valSort *Sort
}

func (f *fctx) uniq(base string) string {
	*f.counter++
	base = strings.Map(func(r rune) rune {
		if r == '|' || r == ' ' || r == '(' || r == ')' || r == '"' || r == '[' || r == ']' || r == '*' || r == ',' || r == '/' || r == ';' || r == '{' || r == '}' {
			return '_'
		}
		return r
	}, base)
	return fmt.Sprintf("%s%s!%d", f.pfx, base, *f.counter)
}

func (f *fctx) declare(base string, s *Sort) Term {
	n := f.uniq(base)
	f.sc.emit("(declare-const %s %s)", n, s.SMT())
	t := Term{S: n, Sort: s}
	return t
}

func (f *fctx) define(base string, t Term) Term {
	if len(t.S) < 24 && !strings.Contains(t.S, " ") {
		return t
	}
	n := f.uniq(base)
	f.sc.emit("(define-fun %s () %s %s)", n, t.Sort.SMT(), t.S)
	return Term{S: n, Sort: t.Sort, Ty: t.Ty}
}

func (f *fctx) assume(t Term) {
	if t.S == "true" {
		return
	}
	f.sc.emit("(assert %s)", Implies(f.curReach, t).S)
}

// assumeCut: assume a fact whose obligation has just been generated (cut rule).  In batched rendering the pending
// obligations are discharged before this assumption is made, so that it cannot be used to prove itself.
func (f *fctx) assumeCut(t Term) {
	if t.S == "true" {
		return
	}
	f.sc.Items = append(f.sc.Items, Item{Text: fmt.Sprintf("(assert %s)", Implies(f.curReach, t).S), Cut: true})
}

func (f *fctx) oblige(kind, name string, goal Term, pos token.Pos, desc string) {
	if kind == "X" && f.con != nil && f.con.NoOverflow {
		return // float side conditions are not panics: skipped in no-overflow (sweep) contracts
	}
	g := Implies(f.curReach, goal)
	if g.S == "true" {
		// still count trivially true obligations
	}
	ob := &Obligation{Name: f.obPrefix + name, Kind: kind, Goal: g.S, Pos: f.vc.position(pos), Desc: desc, Func: f.sc.FuncName, Ideal: f.ideal}
	f.sc.Items = append(f.sc.Items, Item{Ob: ob})
}

func (f *fctx) fail(format string, a ...interface{}) {
	panic(unsupported{fmt.Sprintf(format, a...)})
}

// ------------------------------------------------------------ state access

func (f *fctx) heap(key string, elem *Sort) Term {
	if t, ok := f.cur.cells[key]; ok {
		return t
	}
	// first use: the initial heap array
	as := ArrOf(elem)
	if hs, ok := f.vc.heapSorts[key]; !ok {
		f.vc.heapSorts[key] = as
	} else {
		as = hs
	}
	name := key + "!0"
	t := Term{S: name, Sort: as}
	// initial heap constants are declared globally (see render)
	f.cur.cells[key] = t
	return t
}

// applyLemma assumes ground instances of a lemma (proved separately as its own script): the lemma's non-split
// variables are bound to the argument expressions, its split variables range over their declared values.
func (f *fctx) applyLemma(ap *ECall, env *Env) error {
	var lem *Lemma
	for _, l := range f.vc.cs.Lemmas {
		if l.Name == ap.Fn {
			lem = l
		}
	}
	if lem == nil {
		return fmt.Errorf("contract error: apply: no lemma %s", ap.Fn)
	}
	split := map[string]Split{}
	for _, sp := range lem.Splits {
		split[sp.Var] = sp
	}
	var free []string
	for _, st := range lem.Stmts {
		if st.Kind == "var" {
			if _, isSplit := split[st.Name]; !isSplit {
				free = append(free, st.Name)
			}
		}
		if st.Kind == "call" {
			return fmt.Errorf("contract error: apply: lemma %s contains calls", lem.Name)
		}
	}
	if len(free) != len(ap.Args) {
		return fmt.Errorf("contract error: apply %s: %d arguments for %d variables", lem.Name, len(ap.Args), len(free))
	}
	bound := map[string]Term{}
	for i, n := range free {
		t, e := ToSMT(ap.Args[i], env)
		if e != nil {
			return fmt.Errorf("contract error: apply %s: %v", lem.Name, e)
		}
		bound[n] = t
	}
	// enumerate the split values
	var names []string
	for _, sp := range lem.Splits {
		names = append(names, sp.Var)
	}
	var rec func(i int, vals map[string]Term) error
	rec = func(i int, vals map[string]Term) error {
		if i == len(names) {
			vars := map[string]Term{}
			for k, v := range bound {
				vars[k] = v
			}
			for k, v := range vals {
				vars[k] = v
			}
			// the instance is stated without revealing opaque definitions: it is a fact about the symbols
			e := &Env{Vars: vars, Defs: f.vc.cs.Defs, Reveal: f.revealSet(), Pure: f.vc.pureResolverDir(lem.PkgDir)}
			var hyps []Term
			for _, st := range lem.Stmts {
				switch st.Kind {
				case "assume":
					t, err := ToSMT(st.Clause.Expr, e)
					if err != nil {
						return fmt.Errorf("contract error: apply %s: %v", lem.Name, err)
					}
					hyps = append(hyps, wantBoolE(t))
				case "assert":
					t, err := ToSMT(st.Clause.Expr, e)
					if err != nil {
						return fmt.Errorf("contract error: apply %s: %v", lem.Name, err)
					}
					f.assume(Implies(And(hyps...), wantBoolE(t)))
				}
			}
			return nil
		}
		sp := split[names[i]]
		if sp.HiVar != "" {
			return fmt.Errorf("contract error: apply %s: dependent split ranges are not supported", lem.Name)
		}
		for v := sp.Lo; v <= sp.Hi; v++ {
			vals[names[i]] = IntLit(int64(v))
			if err := rec(i+1, vals); err != nil {
				return err
			}
		}
		return nil
	}
	f.sc.Trusted["lemma "+lem.Name+" (proved as its own script under the same property) is used by instantiation"] = true
	return rec(0, map[string]Term{})
}

// ghostSort: the nested array sort of a ghost relation (result Bool).
func (vc *VC) ghostSort(name string) (*Sort, []*Sort, bool) {
	if vc.cs == nil {
		return nil, nil, false
	}
	names, ok := vc.cs.Ghosts[name]
	if !ok {
		return nil, nil, false
	}
	var args []*Sort
	for _, n := range names {
		args = append(args, sortByName(n))
	}
	s := SBool
	for i := len(args) - 1; i >= 0; i-- {
		s = ArrKV(args[i], s)
	}
	return s, args, true
}

func ghostKey(name string) string { return "H$ghost$" + name }

// ghostIn applies a ghost relation in state st.
func (f *fctx) ghostIn(st *State, name string, a []Term) (Term, bool) {
	s, args, ok := f.vc.ghostSort(name)
	if !ok {
		return Term{}, false
	}
	if len(a) != len(args) {
		specFail("ghost relation %s expects %d arguments", name, len(args))
	}
	key := ghostKey(name)
	if _, ok := f.vc.heapSorts[key]; !ok {
		f.vc.heapSorts[key] = s
	}
	cur, ok := st.cells[key]
	if !ok {
		cur = Term{S: key + "!0", Sort: s}
	}
	str := cur.S
	for _, x := range a {
		str = "(select " + str + " " + x.S + ")"
	}
	return Term{S: str, Sort: SBool}, true
}

func (f *fctx) ghostResolver(st *State) func(name string, args []Term) (Term, bool) {
	return func(name string, args []Term) (Term, bool) { return f.ghostIn(st, name, args) }
}

// havocGhosts gives the ghost relations a contract may modify a fresh value.
func (f *fctx) havocGhosts(names []string) {
	for _, n := range names {
		s, _, ok := f.vc.ghostSort(n)
		if !ok {
			panic(specErr{"modifies: unknown ghost relation " + n})
		}
		key := ghostKey(n)
		f.vc.heapSorts[key] = s
		f.cur.cells[key] = f.declare("g_"+n, s)
	}
}

func (f *fctx) top() Term {
	if t, ok := f.cur.cells["top"]; ok {
		return t
	}
	t := Term{S: "top!0", Sort: SInt}
	f.cur.cells["top"] = t
	return t
}

func (f *fctx) newRef(base string) Term {
	r := f.declare(base, SInt)
	f.assume(T(SBool, "(> %s %s)", r.S, f.top().S))
	f.cur.cells["top"] = r
	return r
}

func (f *fctx) load(p *Place) Term {
	switch p.Kind {
	case PCell, PGlobal:
		t, ok := f.cur.cells[p.Key]
		if !ok {
			f.fail("load of unknown cell %s", p.Key)
		}
		t.Ty = p.Ty
		return t
	case PField:
		h := f.heap(p.HKey, p.Sort)
		return Term{S: fmt.Sprintf("(select %s %s)", h.S, p.Ref.S), Sort: p.Sort, Ty: p.Ty}
	case PElem:
		b := f.load(p.Base)
		return Term{S: fmt.Sprintf("(select %s %s)", b.S, p.Index.S), Sort: p.Sort, Ty: p.Ty}
	case PSliceElem:
		return Term{S: fmt.Sprintf("(select (seq.el %s) %s)", p.Seq.S, p.Index.S), Sort: p.Sort, Ty: p.Ty}
	}
	panic("load")
}

func (f *fctx) store(p *Place, v Term) {
	switch p.Kind {
	case PCell:
		f.cur.cells[p.Key] = f.define("c", v)
	case PGlobal:
		f.fail("store to global %s", p.Key)
	case PField:
		h := f.heap(p.HKey, p.Sort)
		f.cur.cells[p.HKey] = f.define("h", Term{S: fmt.Sprintf("(store %s %s %s)", h.S, p.Ref.S, v.S), Sort: h.Sort})
	case PElem:
		b := f.load(p.Base)
		f.store(p.Base, Term{S: fmt.Sprintf("(store %s %s %s)", b.S, p.Index.S, v.S), Sort: b.Sort})
	case PSliceElem:
		f.fail("store through a slice element (aliasing not modelled)")
	}
}

// struct value <-> heap object
func (f *fctx) loadStruct(ref Term, ss *Sort, ty types.Type) Term {
	var parts []string
	for _, fl := range ss.Fields {
		h := f.heap("H$"+ss.Name+"$"+fl.Name, fl.Sort)
		parts = append(parts, fmt.Sprintf("(select %s %s)", h.S, ref.S))
	}
	if len(parts) == 0 {
		return Term{S: "mk_" + ss.Name, Sort: ss, Ty: ty}
	}
	return Term{S: "(mk_" + ss.Name + " " + strings.Join(parts, " ") + ")", Sort: ss, Ty: ty}
}

func (f *fctx) storeStruct(ref Term, ss *Sort, v Term) {
	for _, fl := range ss.Fields {
		key := "H$" + ss.Name + "$" + fl.Name
		h := f.heap(key, fl.Sort)
		f.cur.cells[key] = f.define("h", Term{S: fmt.Sprintf("(store %s %s (%s.%s %s))", h.S, ref.S, ss.Name, fl.Name, v.S), Sort: h.Sort})
	}
}

func (f *fctx) zeroStruct(ref Term, ss *Sort) {
	for _, fl := range ss.Fields {
		key := "H$" + ss.Name + "$" + fl.Name
		h := f.heap(key, fl.Sort)
		f.cur.cells[key] = f.define("h", Term{S: fmt.Sprintf("(store %s %s %s)", h.S, ref.S, ZeroOf(fl.Sort).S), Sort: h.Sort})
	}
}

func (f *fctx) mergeStates(states []*State, conds []Term) *State {
	if len(states) == 1 {
		return states[0].clone()
	}
	keys := map[string]bool{}
	for _, s := range states {
		for k := range s.cells {
			keys[k] = true
		}
	}
	out := &State{cells: map[string]Term{}}
	for _, k := range sortedKeys(keys) {
		var vals []Term
		same := true
		missing := false
		for _, s := range states {
			v, ok := s.cells[k]
			if !ok {
				missing = true
				break
			}
			vals = append(vals, v)
			if v.S != vals[0].S {
				same = false
			}
		}
		if missing {
			if strings.HasPrefix(k, "H$") || k == "top" {
				// key first touched on one path only: other paths hold the initial value
				vals = vals[:0]
				same = true
				for _, s := range states {
					v, ok := s.cells[k]
					if !ok {
						if k == "top" {
							v = Term{S: "top!0", Sort: SInt}
						} else {
							v = Term{S: k + "!0", Sort: f.vc.heapSorts[k]}
						}
					}
					vals = append(vals, v)
					if v.S != vals[0].S {
						same = false
					}
				}
			} else {
				// local cell not defined on all paths: dead on the joined path
				continue
			}
		}
		if same {
			out.cells[k] = vals[0]
			continue
		}
		t := vals[len(vals)-1]
		for i := len(vals) - 2; i >= 0; i-- {
			t = Ite(conds[i], vals[i], t)
		}
		out.cells[k] = f.define("m", t)
	}
	return out
}

// ------------------------------------------------------------ driver

func newScript(name string) *Script {
	return &Script{FuncName: name, Trusted: map[string]bool{}}
}

// TranslateFunction builds the verification script of one function under contract.
func (vc *VC) TranslateFunction(fn *ssa.Function, con *Contract) (sc *Script, err error) {
	dir, _ := vc.dirOf(fn)
	name := dir + "." + FuncKey(fn)
	if con.CaseName != "" {
		name += "#" + con.CaseName
	}
	sc = newScript(name)
	sc.Con = con
	sc.QuickStride = con.QuickStride
	sc.Tactic = con.Tactic
	sc.Splits = con.Splits
	sc.Pos = vc.position(fn.Pos())
	sc.Ideal = con.Float == "ideal"
	defer func() {
		if r := recover(); r != nil {
			if u, ok := r.(unsupported); ok {
				err = fmt.Errorf("outside-subset: %s", u.what)
				return
			}
			if se, ok := r.(specErr); ok {
				err = fmt.Errorf("contract error: %s", se.msg)
				return
			}
			panic(r)
		}
	}()
	cnt := 0
	f := vc.newFctx(fn, con, sc, "", &cnt)
	f.rootCon = con
	f.ideal = sc.Ideal
	f.cur = &State{cells: map[string]Term{}}
	f.curReach = BoolLit(true)
	// register the sorts of the signature (contracts may quantify over them)
	for i := 0; i < fn.Signature.Results().Len(); i++ {
		vc.sortOf(fn.Signature.Results().At(i).Type())
	}
	// parameters
	var args []Term
	ghostTerms := map[string]Term{}
	for _, p := range fn.Params {
		s := vc.sortOf(p.Type())
		nm := "p!" + p.Name()
		def := ""
		for _, sh := range con.Shapes {
			if sh.Param == p.Name() {
				if s.Kind != KStr {
					return nil, fmt.Errorf("contract error: shape on non-string parameter %s", p.Name())
				}
				var atoms []string
				for _, g := range sh.Ghosts {
					gn := "g!" + g
					sc.Params = append(sc.Params, ParamDecl{Name: gn, Source: g, Sort: SInt})
					ghostTerms[g] = Term{S: gn, Sort: SInt}
					atoms = append(atoms, "(a.num "+gn+")")
				}
				def = fmt.Sprintf("(str%d %s)", len(sh.Ghosts), strings.Join(atoms, " "))
			}
		}
		sc.Params = append(sc.Params, ParamDecl{Name: nm, Source: p.Name(), Sort: s, Def: def})
		t := Term{S: nm, Sort: s, Ty: p.Type()}
		args = append(args, t)
	}
	f.bindParams(args)
	for g, t := range ghostTerms {
		f.paramTerms[g] = t
		f.assume(T(SBool, "(in64 %s)", t.S))
	}
	f.ghosts = ghostTerms
	for i, p := range fn.Params {
		f.assumeTypeInvariant(args[i], p.Type(), true)
	}
	// case split on a field of a parameter object: the entry heap holds the split constant there
	for _, sp := range con.Splits {
		parts := strings.SplitN(sp.Var, ".", 2)
		if len(parts) != 2 || strings.HasPrefix(sp.Var, "$") {
			continue
		}
		obj, ok := f.paramTerms[parts[0]]
		if !ok || obj.Ty == nil {
			return nil, fmt.Errorf("contract error: split %s: unknown parameter %s", sp.Var, parts[0])
		}
		pt, ok := obj.Ty.Underlying().(*types.Pointer)
		if !ok {
			return nil, fmt.Errorf("contract error: split %s: parameter is not a pointer", sp.Var)
		}
		st, ok := pt.Elem().Underlying().(*types.Struct)
		if !ok {
			return nil, fmt.Errorf("contract error: split %s: not a struct", sp.Var)
		}
		ss := vc.structSortOf(pt.Elem(), st)
		found := false
		for _, fl := range ss.Fields {
			if fl.Name == parts[1] {
				found = true
				key := "H$" + ss.Name + "$" + fl.Name
				nm := "s!" + sp.Var
				sc.Params = append(sc.Params, ParamDecl{Name: nm, Source: sp.Var, Sort: SInt})
				h := f.heap(key, fl.Sort)
				f.cur.cells[key] = Term{S: fmt.Sprintf("(store %s %s %s)", h.S, obj.S, nm), Sort: h.Sort}
				f.paramTerms[sp.Var] = Term{S: nm, Sort: SInt}
			}
		}
		if !found {
			return nil, fmt.Errorf("contract error: split %s: no such field", sp.Var)
		}
	}
	f.entry = f.cur.clone()
	// requires
	env := f.contractEnv(con, fn, args, nil, f.cur, f.entry)
	for _, sp := range con.Splits {
		if _, ok := f.paramTerms[sp.Var]; !ok && !strings.HasPrefix(sp.Var, "loop:") {
			// may be a loop-carried variable; checked after translation
			f.pendingSplits = append(f.pendingSplits, sp.Var)
		}
	}
	for n, t := range f.ghosts {
		env.Vars[n] = t
	}
	for _, c := range con.Requires {
		t, e := ToSMT(c.Expr, env)
		if e != nil {
			return nil, fmt.Errorf("contract error: %s:%d: %v", c.File, c.Line, e)
		}
		f.assume(wantBoolE(t))
	}
	for _, ap := range con.Applies {
		if e := f.applyLemma(ap, env); e != nil {
			return nil, e
		}
	}
	for _, name := range con.Unfold {
		d, ok := f.vc.cs.Defs[name]
		if !ok || !d.Opaque {
			return nil, fmt.Errorf("contract error: unfold: %s is not an opaque definition", name)
		}
		vars := map[string]Term{}
		var binders, argS []string
		for i, p := range d.Params {
			srt := sortByName(d.Sorts[i])
			vars[p] = Term{S: "q!" + p, Sort: srt}
			binders = append(binders, "(q!"+p+" "+srt.SMT()+")")
			argS = append(argS, "q!"+p)
		}
		body, e := ToSMT(d.Body, &Env{Vars: vars, Defs: f.vc.cs.Defs, Reveal: map[string]bool{}, Pure: f.vc.pureResolver(f.fn)})
		if e != nil {
			return nil, fmt.Errorf("contract error: unfold %s: %v", name, e)
		}
		app := fmt.Sprintf("(spec.%s %s)", name, strings.Join(argS, " "))
		sc.emit("(assert (forall (%s) (! (= %s %s) :pattern (%s))))", strings.Join(binders, " "), app, body.S, app)
	}
	if con.Valid != nil {
		t, e := ToSMT(con.Valid.Expr, env)
		if e != nil {
			return nil, fmt.Errorf("contract error: %s:%d: %v", con.Valid.File, con.Valid.Line, e)
		}
		vt := f.define("valid", wantBoolE(t))
		f.validTerm = &vt
	}
	if f.ideal {
		// trusted identity used by the Mercator row formula (ideal reals only): log(tan p + 1/cos p) = asinh(tan p)
		sc.emit("(assert (forall ((q!p Real)) (! (= (m.Log (+ (m.Tan q!p) (/ 1.0 (m.Cos q!p)))) (m.Asinh (m.Tan q!p))) :pattern ((m.Tan q!p)))))")
		sc.Trusted["ideal-real identity: log(tan p + 1/cos p) = asinh(tan p)"] = true
		sc.Trusted["float64 arithmetic treated as real arithmetic in this function (float ideal)"] = true
	}
	// vacuity guard: the precondition must be satisfiable
	sc.Items = append(sc.Items, Item{Ob: &Obligation{Name: "V/requires-sat", Kind: "V", Goal: "true", ExpectSat: true, Func: name, Desc: "precondition satisfiable"}})
	f.run()
	// postconditions at every return
	for ri, r := range f.rets {
		f.cur = r.state
		f.curReach = r.cond
		var results []Term
		results = append(results, r.vals...)
		env := f.contractEnv(con, fn, args, results, r.state, f.entry)
		env.Results = func(callee string, k int) (Term, bool) {
			rs, ok := f.callRes[callee]
			if !ok || k < 0 || k >= len(rs) {
				return Term{}, false
			}
			return rs[k], true
		}
		for ci, c := range con.Ensures {
			t, e := ToSMT(c.Expr, env)
			if e != nil {
				return nil, fmt.Errorf("contract error: %s:%d: %v", c.File, c.Line, e)
			}
			tag := c.Tag
			if tag == "" {
				tag = fmt.Sprintf("%d", ci)
			}
			f.oblige("P", fmt.Sprintf("P/ensures%s@ret%d", tag, ri), wantBoolE(t), r.pos, c.Text)
			cc := c
			sc.Items[len(sc.Items)-1].Ob.Clause = &cc
		}
		sc.Items = append(sc.Items, Item{Ob: &Obligation{Name: fmt.Sprintf("V/ret%d-reachable", ri), Kind: "V", Goal: r.cond.S, ExpectSat: true, Func: name, Pos: vc.position(r.pos), Desc: "return reachable (ensures false must be refuted)"}})
	}
	if len(f.rets) == 0 {
		return nil, fmt.Errorf("outside-subset: function has no return")
	}
	for _, v := range f.pendingSplits {
		found := false
		for _, sv := range sc.SplitConsts {
			if sv == v {
				found = true
			}
		}
		if !found {
			return nil, fmt.Errorf("contract error: split variable %s is neither a parameter, a ghost nor a loop variable", v)
		}
	}
	return sc, nil
}

func wantBoolE(t Term) Term {
	if t.Sort.Kind != KBool {
		panic(specErr{"clause is not boolean: " + t.S})
	}
	return t
}

func (vc *VC) newFctx(fn *ssa.Function, con *Contract, sc *Script, pfx string, cnt *int) *fctx {
	return &fctx{vc: vc, fn: fn, con: con, sc: sc, pfx: pfx, counter: cnt,
		vals: map[ssa.Value]Term{}, tuples: map[ssa.Value][]Term{}, places: map[ssa.Value]*Place{}, mapKey: map[ssa.Value]string{},
		clos: map[ssa.Value]*ssa.MakeClosure{}, ranges: map[ssa.Value]*rangeInfo{},
		reach: map[*ssa.BasicBlock]Term{}, exit: map[*ssa.BasicBlock]*State{}, loopOrd: map[*ssa.BasicBlock]int{}, backEdges: map[[2]int]bool{},
		inLoop: map[*ssa.BasicBlock][]*ssa.BasicBlock{}, paramTerms: map[string]Term{}, binds: map[ssa.Value]*Place{},
		pow2Vals: map[string]bool{}, constLen: map[string]int{}, unrolled: map[*ssa.BasicBlock]bool{}, unrolling: map[*ssa.BasicBlock]bool{}, exitOverride: map[[2]int]Term{}, edgeOv: map[[2]int]*edgeOverride{}, digits4: map[string]Term{}}
}

func (f *fctx) bindParams(args []Term) {
	for i, p := range f.fn.Params {
		f.vals[p] = args[i]
		f.paramTerms[p.Name()] = args[i]
	}
}

// assumeTypeInvariant adds the facts every value of a Go type satisfies.
func (f *fctx) assumeTypeInvariant(t Term, ty types.Type, input bool) {
	if lo, hi, ok := intRange(ty); ok {
		f.assume(T(SBool, "(and (<= %s %s) (<= %s %s))", lo, t.S, t.S, hi))
		return
	}
	switch t.Sort.Kind {
	case KStr:
		f.assume(T(SBool, "(str.wf %s)", t.S))
	case KSeq:
		f.assume(T(SBool, "(and (>= (seq.len %s) 0) (<= (seq.len %s) max64))", t.S, t.S))
		switch t.Sort.Elem.Kind {
		case KStr:
			f.assume(T(SBool, "(forall ((q!k Int)) (! (str.wf (select (seq.el %s) q!k)) :pattern ((select (seq.el %s) q!k))))", t.S, t.S))
		case KInt:
			if u, ok := ty.Underlying().(*types.Slice); ok {
				if lo, hi, ok := intRange(u.Elem()); ok {
					f.assume(T(SBool, "(forall ((q!k Int)) (! (and (<= %s (select (seq.el %s) q!k)) (<= (select (seq.el %s) q!k) %s)) :pattern ((select (seq.el %s) q!k))))", lo, t.S, t.S, hi, t.S))
				} else if _, isPtr := u.Elem().Underlying().(*types.Pointer); isPtr {
					f.assume(T(SBool, "(forall ((q!k Int)) (! (and (<= 0 (select (seq.el %s) q!k)) (<= (select (seq.el %s) q!k) %s)) :pattern ((select (seq.el %s) q!k))))", t.S, t.S, f.top().S, t.S))
				}
			}
		}
	case KMap:
		f.assume(T(SBool, "(>= (map.size %s) 0)", t.S))
	case KInt:
		if _, ok := ty.Underlying().(*types.Pointer); ok {
			f.assume(T(SBool, "(and (<= 0 %s) (<= %s %s))", t.S, t.S, f.top().S))
		}
	}
}

// contractEnv builds the name environment of a contract: parameters,
// results (by name and as r0..rn), field selection in the given state.
func (f *fctx) contractEnv(con *Contract, fn *ssa.Function, args []Term, results []Term, st *State, pre *State) *Env {
	vars := map[string]Term{}
	for i, p := range fn.Params {
		if i < len(args) {
			vars[p.Name()] = args[i]
		}
	}
	if con == f.rootCon && f.fn == fn {
		for g, t := range f.ghosts {
			vars[g] = t
		}
	} else {
		// at a call site the ghosts of a shaped parameter are its parsed fields
		for _, sh := range con.Shapes {
			for i, p := range fn.Params {
				if p.Name() == sh.Param && i < len(args) {
					for gi, g := range sh.Ghosts {
						vars[g] = T(SInt, "(a.value (fld %s %d))", args[i].S, gi)
					}
				}
			}
		}
	}
	if results != nil {
		rs := fn.Signature.Results()
		for i := 0; i < rs.Len() && i < len(results); i++ {
			r := results[i]
			r.Ty = rs.At(i).Type()
			vars[fmt.Sprintf("r%d", i)] = r
			if n := rs.At(i).Name(); n != "" && n != "_" {
				vars[n] = r
			}
		}
	}
	mk := func(s *State) func(x Term, field string) (Term, bool) {
		return func(x Term, field string) (Term, bool) {
			return f.fieldIn(s, x, field)
		}
	}
	sorts := f.vc.typeParamSorts(fn)
	pure := f.vc.pureResolver(fn)
	reveal := f.revealSet()
	env := &Env{Vars: vars, FieldOf: mk(st), Defs: f.vc.cs.Defs, Sorts: sorts, Pure: pure, Reveal: reveal, Ghost: f.ghostResolver(st)}
	if pre != nil {
		env.Old = &Env{Vars: vars, FieldOf: mk(pre), Defs: f.vc.cs.Defs, Sorts: sorts, Pure: pure, Reveal: reveal, Ghost: f.ghostResolver(pre)}
	}
	return env
}

// pureResolver resolves spec-level calls of pure repository functions:
// Name(args) for a function of the same package, pkgdir:Name(args) otherwise.
func (vc *VC) pureResolver(ctx *ssa.Function) func(name string, args []Term) (Term, bool) {
	dir := ""
	if ctx != nil {
		dir, _ = vc.dirOf(ctx)
	}
	return func(name string, args []Term) (Term, bool) {
		key := dir + ":" + name
		if i := strings.Index(name, "__"); i > 0 {
			// pure function of another package: <pkgdir with _ for />__<Name>
			key = strings.ReplaceAll(name[:i], "_", "/") + ":" + name[i+2:]
		}
		con := vc.cs.Funcs[key]
		if con == nil || !con.Pure {
			return Term{}, false
		}
		fn := vc.funcsByKey[key]
		if fn == nil || len(args) != len(fn.Params) || fn.Signature.Results().Len() != 1 {
			return Term{}, false
		}
		return vc.pureApp(fn, 0, args), true
	}
}

func (vc *VC) pureResolverDir(dir string) func(name string, args []Term) (Term, bool) {
	return func(name string, args []Term) (Term, bool) {
		key := dir + ":" + name
		con := vc.cs.Funcs[key]
		if con == nil || !con.Pure {
			return Term{}, false
		}
		fn := vc.funcsByKey[key]
		if fn == nil || len(args) != len(fn.Params) || fn.Signature.Results().Len() != 1 {
			return Term{}, false
		}
		return vc.pureApp(fn, 0, args), true
	}
}

// typeParamSorts maps the type parameter names of a generic function (or of
// the origin of an instance) to sorts.
func (vc *VC) typeParamSorts(fn *ssa.Function) map[string]*Sort {
	out := map[string]*Sort{}
	if fn == nil {
		return out
	}
	org := fn
	if fn.Origin() != nil {
		org = fn.Origin()
	}
	// struct sorts by datatype name (object_ExtendedSpatialID, ...)
	for n, ss := range vc.structSorts {
		out[n] = ss
	}
	tps := org.TypeParams()
	targs := fn.TypeArgs()
	for i := 0; i < tps.Len(); i++ {
		if i < len(targs) {
			out[tps.At(i).Obj().Name()] = vc.sortOf(targs[i])
		} else {
			out[tps.At(i).Obj().Name()] = SAny
		}
	}
	return out
}

func (f *fctx) fieldIn(s *State, x Term, field string) (Term, bool) {
	if x.Ty == nil {
		return Term{}, false
	}
	pt, ok := x.Ty.Underlying().(*types.Pointer)
	if !ok {
		return Term{}, false
	}
	st, ok := pt.Elem().Underlying().(*types.Struct)
	if !ok {
		return Term{}, false
	}
	ss := f.vc.structSortOf(pt.Elem(), st)
	for i, fl := range ss.Fields {
		if fl.Name == field {
			key := "H$" + ss.Name + "$" + fl.Name
			saved := f.cur
			f.cur = s
			h := f.heap(key, fl.Sort)
			f.cur = saved
			return Term{S: fmt.Sprintf("(select %s %s)", h.S, x.S), Sort: fl.Sort, Ty: st.Field(i).Type()}, true
		}
	}
	return Term{}, false
}

// ------------------------------------------------------------ CFG walk

func (f *fctx) analyzeLoops() {
	fn := f.fn
	ord := 0
	// back edge: p -> h where h dominates p
	for _, b := range fn.Blocks {
		for _, s := range b.Succs {
			if s.Dominates(b) {
				f.backEdges[[2]int{b.Index, s.Index}] = true
			}
		}
	}
	// loop ordinals in source order of the header position
	var headers []*ssa.BasicBlock
	seen := map[*ssa.BasicBlock]bool{}
	for _, b := range fn.Blocks {
		for _, s := range b.Succs {
			if f.backEdges[[2]int{b.Index, s.Index}] && !seen[s] {
				seen[s] = true
				headers = append(headers, s)
			}
		}
	}
	sort.Slice(headers, func(i, j int) bool { return headers[i].Index < headers[j].Index })
	for _, h := range headers {
		f.loopOrd[h] = ord
		ord++
		// natural loop body
		body := map[*ssa.BasicBlock]bool{h: true}
		var stack []*ssa.BasicBlock
		for _, p := range h.Preds {
			if f.backEdges[[2]int{p.Index, h.Index}] && !body[p] {
				body[p] = true
				stack = append(stack, p)
			}
		}
		for len(stack) > 0 {
			b := stack[len(stack)-1]
			stack = stack[:len(stack)-1]
			for _, p := range b.Preds {
				if !body[p] {
					body[p] = true
					stack = append(stack, p)
				}
			}
		}
		for _, b := range fn.Blocks {
			if body[b] {
				f.inLoop[h] = append(f.inLoop[h], b)
			}
		}
	}
}

func (f *fctx) rpo() []*ssa.BasicBlock {
	visited := map[*ssa.BasicBlock]bool{}
	var post []*ssa.BasicBlock
	var dfs func(b *ssa.BasicBlock)
	dfs = func(b *ssa.BasicBlock) {
		visited[b] = true
		for _, s := range b.Succs {
			if f.backEdges[[2]int{b.Index, s.Index}] {
				continue
			}
			if !visited[s] {
				dfs(s)
			}
		}
		post = append(post, b)
	}
	dfs(f.fn.Blocks[0])
	for i, j := 0, len(post)-1; i < j; i, j = i+1, j-1 {
		post[i], post[j] = post[j], post[i]
	}
	return post
}

func (f *fctx) edgeCond(p, b *ssa.BasicBlock) Term {
	if t, ok := f.exitOverride[[2]int{p.Index, b.Index}]; ok {
		return t
	}
	r := f.reach[p]
	last := p.Instrs[len(p.Instrs)-1]
	if iff, ok := last.(*ssa.If); ok {
		c := f.val(iff.Cond)
		if p.Succs[0] == b && p.Succs[1] == b {
			return r
		}
		if p.Succs[0] == b {
			return And(r, c)
		}
		return And(r, Not(c))
	}
	return r
}

func (f *fctx) run() {
	fn := f.fn
	if len(fn.Blocks) == 0 {
		f.fail("function %s has no body", fn.String())
	}
	if fn.Recover != nil {
		f.fail("recover")
	}
	f.analyzeLoops()
	f.entryState = f.cur
	f.entryReach = f.curReach
	f.walk(f.rpo(), nil)
}

// walk processes blocks in reverse post-order.  within (if non-nil) is the
// loop currently being unrolled: predecessors outside it are ignored for
// blocks other than its header.
func (f *fctx) walk(order []*ssa.BasicBlock, skipHeader *ssa.BasicBlock) {
	for _, b := range order {
		if f.unrolled[b] || b == skipHeader {
			continue
		}
		ord, isHeader := f.loopOrd[b]
		if isHeader && f.con != nil && f.con.Unroll[ord] > 0 {
			f.unrollLoop(b, ord, f.con.Unroll[ord])
			continue
		}
		f.curBlock = b
		if b.Index == 0 {
			f.cur = f.entryState
			f.curReach = f.entryReach
		} else {
			var states []*State
			var conds []Term
			var preds []*ssa.BasicBlock
			for _, p := range b.Preds {
				if f.backEdges[[2]int{p.Index, b.Index}] {
					continue
				}
				if _, done := f.reach[p]; !done {
					continue // unreachable predecessor
				}
				preds = append(preds, p)
				if ov, ok := f.edgeOv[[2]int{p.Index, b.Index}]; ok {
					states = append(states, ov.state)
					conds = append(conds, ov.cond)
					continue
				}
				states = append(states, f.exit[p])
				conds = append(conds, f.edgeCond(p, b))
			}
			if len(preds) == 0 {
				continue
			}
			f.curReach = f.define("reach", Or(conds...))
			f.cur = f.mergeStates(states, conds)
			if isHeader {
				f.loopHeader(b, ord, preds, conds)
			} else {
				for _, ins := range b.Instrs {
					phi, ok := ins.(*ssa.Phi)
					if !ok {
						break
					}
					f.phi(phi, preds, conds)
				}
			}
		}
		f.finishBlock(b)
	}
}

func (f *fctx) finishBlock(b *ssa.BasicBlock) {
	f.reach[b] = f.curReach
	for _, ins := range b.Instrs {
		if _, ok := ins.(*ssa.Phi); ok {
			continue
		}
		f.instr(ins)
	}
	f.exit[b] = f.cur
	// back edges leaving this block: invariant preservation (not for unrolled loops)
	for _, s := range b.Succs {
		if f.backEdges[[2]int{b.Index, s.Index}] && !f.unrolling[s] {
			f.checkInvariant(s, b, "I1")
		}
	}
}

type edgeOverride struct {
	cond  Term
	state *State
	phis  map[*ssa.Phi]Term
}

// unrollLoop unrolls a loop completely: n body executions, then an unwinding
// assertion that the loop condition is false.  Only loops that leave through
// their header (or by return) are supported.
func (f *fctx) unrollLoop(h *ssa.BasicBlock, ord int, n int) {
	body := f.inLoop[h]
	inBody := map[*ssa.BasicBlock]bool{}
	for _, b := range body {
		inBody[b] = true
	}
	// exits from the body (break): recorded per iteration and merged afterwards
	type bodyExit struct{ from, to *ssa.BasicBlock }
	var bodyExits []bodyExit
	retOnly := func(s *ssa.BasicBlock) bool {
		_, isRet := s.Instrs[len(s.Instrs)-1].(*ssa.Return)
		return isRet && len(s.Preds) == 1
	}
	for _, b := range body {
		if b == h {
			continue
		}
		for _, s := range b.Succs {
			if !inBody[s] && !retOnly(s) {
				bodyExits = append(bodyExits, bodyExit{b, s})
			}
		}
	}
	type edgeSnap struct {
		cond  Term
		state *State
		phis  map[*ssa.Phi]Term
	}
	bodySnaps := map[bodyExit][]edgeSnap{}
	var bodyOrder []*ssa.BasicBlock
	for _, b := range f.rpo() {
		if inBody[b] && b != h {
			bodyOrder = append(bodyOrder, b)
		} else if !inBody[b] {
			// return-only blocks hanging off the body are processed with it
			if retOnly(b) {
				for _, p := range b.Preds {
					if inBody[p] && p != h {
						bodyOrder = append(bodyOrder, b)
						break
					}
				}
			}
		}
	}
	f.unrolling[h] = true
	type incoming struct {
		cond  Term
		state *State
		phis  map[*ssa.Phi]Term
	}
	// iteration 0: entry edges
	var inc []incoming
	for _, p := range h.Preds {
		if f.backEdges[[2]int{p.Index, h.Index}] {
			continue
		}
		if _, done := f.reach[p]; !done {
			continue
		}
		in := incoming{cond: f.edgeCond(p, h), state: f.exit[p], phis: map[*ssa.Phi]Term{}}
		for _, ins := range h.Instrs {
			phi, ok := ins.(*ssa.Phi)
			if !ok {
				break
			}
			for j, pp := range h.Preds {
				if pp == p {
					in.phis[phi] = f.val(phi.Edges[j])
				}
			}
		}
		inc = append(inc, in)
	}
	if len(inc) == 0 {
		for _, b := range body {
			f.unrolled[b] = true
		}
		return
	}
	type exitSnap struct {
		cond  Term
		state *State
		vals  map[ssa.Value]Term
	}
	exits := map[*ssa.BasicBlock][]exitSnap{}
	for k := 0; k <= n; k++ {
		f.curBlock = h
		for _, b := range body {
			delete(f.unrolled, b)
			for _, sb := range b.Succs {
				delete(f.exitOverride, [2]int{b.Index, sb.Index})
				delete(f.edgeOv, [2]int{b.Index, sb.Index})
			}
		}
		for _, b := range bodyOrder {
			delete(f.unrolled, b)
		}
		var conds []Term
		var states []*State
		for _, in := range inc {
			conds = append(conds, in.cond)
			states = append(states, in.state)
		}
		f.curReach = f.define(fmt.Sprintf("reach_u%d", k), Or(conds...))
		f.cur = f.mergeStates(states, conds)
		for _, ins := range h.Instrs {
			phi, ok := ins.(*ssa.Phi)
			if !ok {
				break
			}
			t := inc[len(inc)-1].phis[phi]
			for i := len(inc) - 2; i >= 0; i-- {
				t = Ite(inc[i].cond, inc[i].phis[phi], t)
			}
			t.Ty = phi.Type()
			f.vals[phi] = f.define(fmt.Sprintf("%s_u%d", phi.Name(), k), t)
			if l, ok := f.constLen[inc[len(inc)-1].phis[phi].S]; ok && len(inc) == 1 {
				f.constLen[f.vals[phi].S] = l
			}
		}
		// clear reach of body blocks so that stale predecessors are not merged
		for _, b := range bodyOrder {
			delete(f.reach, b)
		}
		// invariants of an unrolled loop are per-iteration cut lemmas: proved, then assumed
		if invs := f.con.invariants(ord); len(invs) > 0 {
			env := f.loopEnv(h, nil, f.cur)
			for ci, c := range invs {
				t, err := ToSMT(c.Expr, env)
				if err != nil {
					panic(specErr{fmt.Sprintf("%s:%d: %v", c.File, c.Line, err)})
				}
				tag := c.Tag
				if tag == "" {
					tag = fmt.Sprint(ci)
				}
				f.oblige("I1", fmt.Sprintf("I/loop%d.inv%s@iter%d", ord, tag, k), wantBoolE(t), h.Instrs[0].Pos(), c.Text)
				f.assumeCut(t)
			}
		}
		f.finishBlock(h)
		// exits from the header
		for _, sblk := range h.Succs {
			if inBody[sblk] {
				continue
			}
			snap := exitSnap{cond: f.edgeCond(h, sblk), state: f.exit[h], vals: map[ssa.Value]Term{}}
			for _, ins := range h.Instrs {
				if v, ok := ins.(ssa.Value); ok {
					if t, ok := f.vals[v]; ok {
						snap.vals[v] = t
					}
				}
			}
			exits[sblk] = append(exits[sblk], snap)
		}
		if k == n {
			// unwinding assertion: the loop does not continue
			for _, sblk := range h.Succs {
				if inBody[sblk] {
					saved := f.curReach
					f.curReach = BoolLit(true)
					f.oblige("U", fmt.Sprintf("U/loop%d.unwind%d", ord, n), Not(f.edgeCond(h, sblk)), h.Instrs[len(h.Instrs)-1].Pos(), fmt.Sprintf("loop %d finishes within %d iterations (unwinding assertion)", ord, n))
					f.curReach = saved
				}
			}
			break
		}
		f.walk(bodyOrder, h)
		for _, be := range bodyExits {
			if _, done := f.reach[be.from]; !done {
				continue
			}
			sn := edgeSnap{cond: f.edgeCond(be.from, be.to), state: f.exit[be.from], phis: map[*ssa.Phi]Term{}}
			for _, ins := range be.to.Instrs {
				phi, ok := ins.(*ssa.Phi)
				if !ok {
					break
				}
				for j, pp := range be.to.Preds {
					if pp == be.from {
						sn.phis[phi] = f.val(phi.Edges[j])
					}
				}
			}
			bodySnaps[be] = append(bodySnaps[be], sn)
		}
		// back edges into the header form the incoming edges of the next iteration
		inc = nil
		for _, p := range h.Preds {
			if !f.backEdges[[2]int{p.Index, h.Index}] {
				continue
			}
			if _, done := f.reach[p]; !done {
				continue
			}
			in := incoming{cond: f.edgeCond(p, h), state: f.exit[p], phis: map[*ssa.Phi]Term{}}
			for _, ins := range h.Instrs {
				phi, ok := ins.(*ssa.Phi)
				if !ok {
					break
				}
				for j, pp := range h.Preds {
					if pp == p {
						in.phis[phi] = f.val(phi.Edges[j])
					}
				}
			}
			inc = append(inc, in)
		}
		if len(inc) == 0 {
			break
		}
	}
	// merge the exits: the header's values are those of the iteration that left
	var allConds []Term
	var allStates []*State
	for sblk, snaps := range exits {
		var conds []Term
		for _, sn := range snaps {
			conds = append(conds, sn.cond)
			allConds = append(allConds, sn.cond)
			allStates = append(allStates, sn.state)
		}
		f.exitOverride[[2]int{h.Index, sblk.Index}] = f.define("exit_u", Or(conds...))
	}
	if len(allConds) > 0 {
		f.exit[h] = f.mergeStates(allStates, allConds)
		f.reach[h] = f.define("reach_uexit", Or(allConds...))
		var flat []exitSnap
		for _, snaps := range exits {
			flat = append(flat, snaps...)
		}
		for _, ins := range h.Instrs {
			v, ok := ins.(ssa.Value)
			if !ok {
				continue
			}
			last := flat[len(flat)-1]
			t, ok := last.vals[v]
			if !ok || t.Sort.Kind == KTuple || t.Sort.Kind == KFunc {
				continue
			}
			single := true
			for i := len(flat) - 2; i >= 0; i-- {
				if pv, ok := flat[i].vals[v]; ok {
					if pv.S != t.S {
						single = false
					}
					t = Ite(flat[i].cond, pv, t)
				}
			}
			t.Ty = v.Type()
			nt := f.define(v.Name()+"_ux", t)
			if single {
				if l, ok := f.constLen[last.vals[v].S]; ok {
					f.constLen[nt.S] = l
				}
			}
			f.vals[v] = nt
		}
	} else {
		delete(f.reach, h)
	}
	// merged break edges
	for be, snaps := range bodySnaps {
		var conds []Term
		var states []*State
		for _, sn := range snaps {
			conds = append(conds, sn.cond)
			states = append(states, sn.state)
		}
		ov := &edgeOverride{cond: f.define("break_u", Or(conds...)), state: f.mergeStates(states, conds), phis: map[*ssa.Phi]Term{}}
		for phi := range snaps[0].phis {
			t := snaps[len(snaps)-1].phis[phi]
			for i := len(snaps) - 2; i >= 0; i-- {
				t = Ite(snaps[i].cond, snaps[i].phis[phi], t)
			}
			ov.phis[phi] = f.define(phi.Name()+"_brk", t)
		}
		f.edgeOv[[2]int{be.from.Index, be.to.Index}] = ov
		f.reach[be.from] = ov.cond
	}
	for _, be := range bodyExits {
		if _, ok := bodySnaps[be]; !ok {
			delete(f.reach, be.from)
		}
	}
	// values defined in the body are iteration-local
	for _, b := range body {
		f.unrolled[b] = true
		if b == h {
			continue
		}
		for _, ins := range b.Instrs {
			if v, ok := ins.(ssa.Value); ok {
				delete(f.vals, v)
			}
		}
	}
	for _, b := range bodyOrder {
		f.unrolled[b] = true
	}
	delete(f.unrolling, h)
}

func (f *fctx) phi(phi *ssa.Phi, preds []*ssa.BasicBlock, conds []Term) {
	s := f.vc.sortOf(phi.Type())
	if s.Kind == KFunc {
		f.fail("phi of function values")
	}
	var vals []Term
	for i, p := range preds {
		_ = i
		// find edge index
		if ov, ok := f.edgeOv[[2]int{p.Index, phi.Block().Index}]; ok {
			if t, ok := ov.phis[phi]; ok {
				vals = append(vals, t)
				continue
			}
		}
		for j, pp := range phi.Block().Preds {
			if pp == p {
				vals = append(vals, f.val(phi.Edges[j]))
				break
			}
		}
	}
	if _, isMap := phi.Type().Underlying().(*types.Map); isMap {
		f.fail("phi of map values")
	}
	t := vals[len(vals)-1]
	for i := len(vals) - 2; i >= 0; i-- {
		t = Ite(conds[i], vals[i], t)
	}
	t.Ty = phi.Type()
	f.vals[phi] = f.define(phi.Name(), t)
}

// revealSet: the opaque definitions the contract being proved asks to expand.
func (f *fctx) revealSet() map[string]bool {
	r := f.rootFctx()
	if r.rootCon != nil {
		return r.rootCon.Reveal
	}
	return r.lemmaReveal
}

// loopFrame: the contract asks for loop-local heap writes not to be havocked (directive loopframe).
func (f *fctx) loopFrame() bool {
	r := f.rootFctx()
	return r.rootCon != nil && r.rootCon.LoopFrame
}

func (f *fctx) rootFctx() *fctx {
	r := f
	for r.parent != nil {
		r = r.parent
	}
	return r
}

// loopHeader havocs the loop-carried values and assumes the invariant.
func (f *fctx) loopHeader(h *ssa.BasicBlock, ord int, preds []*ssa.BasicBlock, conds []Term) {
	// establishment is checked on each entry edge with the incoming values
	for i, p := range preds {
		_ = i
		f.checkInvariantFrom(h, p, f.exit[p], f.edgeCond(p, h), "I0")
	}
	// havoc phis
	for _, ins := range h.Instrs {
		phi, ok := ins.(*ssa.Phi)
		if !ok {
			break
		}
		s := f.vc.sortOf(phi.Type())
		if s.Kind == KFunc {
			f.fail("phi of function values")
		}
		t := f.declare(phi.Name()+"_"+strings.TrimPrefix(phi.Comment, "#"), s)
		t.Ty = phi.Type()
		f.vals[phi] = t
		if root := f.rootFctx(); root.rootCon != nil && s.Kind == KInt {
			for _, sp := range root.rootCon.Splits {
				if (sp.Var == phi.Comment && phi.Comment != "") || (sp.Var == "$idx" && phi.Comment == "rangeindex") {
					if f.sc.SplitConsts == nil {
						f.sc.SplitConsts = map[string]string{}
					}
					f.sc.SplitConsts[t.S] = sp.Var
				}
			}
		}
		f.assumeTypeInvariant(t, phi.Type(), false)
	}
	// havoc modified state
	mod := f.loopModifies(h)
	existing := f.loopWritesExisting(h)
	topBefore := map[string]Term{}
	if t, ok := f.cur.cells["top"]; ok {
		topBefore["top"] = t
	} else {
		topBefore["top"] = Term{S: "top!0", Sort: SInt}
	}
	for _, k := range sortedKeys(mod) {
		old, ok := f.cur.cells[k]
		if !ok {
			if strings.HasPrefix(k, "H$") {
				old = f.heap(k, f.vc.heapSorts[k].Elem)
			} else if k == "top" {
				old = f.top()
			} else {
				continue
			}
		}
		if f.loopFrame() && strings.HasPrefix(k, "H$") && !existing[k] {
			// the loop writes this field only in objects it allocates itself: every object that existed
			// at loop entry keeps its value, and the values at not-yet-allocated references are
			// unconstrained in the entry heap anyway, so the entry heap stands for the heap of any iteration
			continue
		}
		nv := f.declare("hv_"+k, old.Sort)
		if k == "top" {
			f.assume(T(SBool, "(>= %s %s)", nv.S, old.S))
		}
		if false && strings.HasPrefix(k, "H$") && !existing[k] {
			// frame: the loop writes this field only in objects it allocates itself, so every object
			// that existed at loop entry keeps its value
			topEntry := f.cur.cells["top"]
			if te, ok := topBefore["top"]; ok {
				topEntry = te
			}
			if topEntry.S == "" {
				topEntry = Term{S: "top!0", Sort: SInt}
			}
			f.assume(T(SBool, "(forall ((q!r Int)) (! (=> (<= q!r %s) (= (select %s q!r) (select %s q!r))) :pattern ((select %s q!r))))", topEntry.S, nv.S, old.S, nv.S))
		}
		if strings.HasPrefix(k, "iter$") {
			f.assume(T(SBool, "(>= %s 0)", nv.S))
		}
		if strings.HasPrefix(k, "M$") {
			f.assume(T(SBool, "(>= (map.size %s) 0)", nv.S))
		}
		f.cur.cells[k] = nv
	}
	// assume invariants
	env := f.loopEnv(h, nil, f.cur)
	for _, c := range f.allInvariants(h) {
		t, err := ToSMT(c.Expr, env)
		if err != nil {
			panic(specErr{fmt.Sprintf("%s:%d: %v", c.File, c.Line, err)})
		}
		f.assume(wantBoolE(t))
	}
}

func (c *Contract) invariants(ord int) []Clause {
	if c == nil {
		return nil
	}
	return c.Loops[ord]
}

var (
	autoRangeIndexInv, _ = ParseExpr("0 <= $i && $i <= $len")
	autoRangeMapInv, _   = ParseExpr("0 <= $n && $n <= $size")
)

// allInvariants adds the invariants every range loop has by construction
// (they are checked like user invariants, not assumed).
func (f *fctx) allInvariants(h *ssa.BasicBlock) []Clause {
	var out []Clause
	if rangeIndexBound(h) != nil {
		out = append(out, Clause{Text: "0 <= $i && $i <= $len (automatic: range index within the slice)", Expr: autoRangeIndexInv, Tag: "auto-index"})
	}
	if phi := canonicalInduction(h); phi != nil {
		// for i := 0; i < len(s); i++ : the counter is non-negative, and at most the length when the bound is a
		// length (which cannot be negative); proved like every other invariant (I0 / I1)
		if x := counterLenOperand(h, phi); x != nil && f.sliceTermOf(x) != nil {
			out = append(out, Clause{Text: "0 <= $i && $i <= $len (automatic: counter of an index loop over the length of a slice)", Expr: autoRangeIndexInv, Tag: "auto-counter"})
		} else {
			out = append(out, Clause{Text: "0 <= $i (automatic: counter of an index loop)", Expr: autoCounterInv, Tag: "auto-counter"})
		}
	}
	for _, ins := range h.Instrs {
		if nx, ok := ins.(*ssa.Next); ok {
			if ri, ok := f.ranges[nx.Iter]; ok && ri.isMap {
				out = append(out, Clause{Text: "0 <= $n && $n <= $size (automatic: iteration count within the map size)", Expr: autoRangeMapInv, Tag: "auto-iter"})
			}
		}
	}
	out = append(out, f.con.invariants(f.loopOrd[h])...)
	return out
}

// loopModifies returns the state keys that may change inside the loop.
func (f *fctx) loopModifies(h *ssa.BasicBlock) map[string]bool {
	mod := map[string]bool{}
	for _, b := range f.inLoop[h] {
		for _, ins := range b.Instrs {
			switch ins := ins.(type) {
			case *ssa.Alloc:
				mod["top"] = true
				if st, ok := ins.Type().(*types.Pointer).Elem().Underlying().(*types.Struct); ok {
					ss := f.vc.structSortOf(ins.Type().(*types.Pointer).Elem(), st)
					for _, fl := range ss.Fields {
						mod["H$"+ss.Name+"$"+fl.Name] = true
						if _, ok := f.vc.heapSorts["H$"+ss.Name+"$"+fl.Name]; !ok {
							f.vc.heapSorts["H$"+ss.Name+"$"+fl.Name] = ArrOf(fl.Sort)
						}
					}
				} else {
					mod["C$"+f.pfx+ins.Name()] = true
				}
			case *ssa.Store:
				root := rootOfAddr(ins.Addr)
				switch r := root.(type) {
				case *ssa.Alloc:
					if _, ok := r.Type().(*types.Pointer).Elem().Underlying().(*types.Struct); !ok {
						mod["C$"+f.pfx+r.Name()] = true
					} else {
						st := r.Type().(*types.Pointer).Elem().Underlying().(*types.Struct)
						ss := f.vc.structSortOf(r.Type().(*types.Pointer).Elem(), st)
						for _, fl := range ss.Fields {
							mod["H$"+ss.Name+"$"+fl.Name] = true
						}
					}
				case *ssa.FieldAddr:
					if key, ok := f.vc.heapKeyOfFieldAddr(r); ok {
						mod[key] = true
						if _, ok := f.vc.heapSorts[key]; !ok {
							pt := r.X.Type().Underlying().(*types.Pointer)
							ss := f.vc.structSortOf(pt.Elem(), pt.Elem().Underlying().(*types.Struct))
							f.vc.heapSorts[key] = ArrOf(ss.Fields[r.Field].Sort)
						}
					}
				case *ssa.FreeVar:
					if p, ok := f.binds[r]; ok && p.Kind == PCell {
						mod[p.Key] = true
					}
				default:
					if pt, ok := ins.Addr.Type().Underlying().(*types.Pointer); ok {
						if st, ok := pt.Elem().Underlying().(*types.Struct); ok {
							ss := f.vc.structSortOf(pt.Elem(), st)
							for _, fl := range ss.Fields {
								mod["H$"+ss.Name+"$"+fl.Name] = true
							}
						}
					}
				}
			case *ssa.MapUpdate:
				if k, ok := f.mapKey[ins.Map]; ok {
					mod[k] = true
				}
			case *ssa.Next:
				if ri, ok := f.ranges[ins.Iter]; ok {
					mod[ri.iterKey] = true
				} else {
					mod["iter$"+f.pfx+ins.Iter.Name()] = true
				}
			case *ssa.MakeMap:
				mod["M$"+f.pfx+ins.Name()] = true
			case ssa.CallInstruction:
				com := ins.Common()
				if callee := com.StaticCallee(); callee != nil {
					for k := range f.vc.effectsOf(callee) {
						mod[k] = true
						if _, ok := f.vc.heapSorts[k]; !ok && strings.HasPrefix(k, "H$") {
							f.registerHeapKey(k)
						}
					}
					if con := f.vc.contractOf(callee); con != nil {
						for _, g := range con.Modifies {
							mod[ghostKey(g)] = true
							if gs, _, ok := f.vc.ghostSort(g); ok {
								f.vc.heapSorts[ghostKey(g)] = gs
							}
						}
						if len(con.Fresh) > 0 {
							mod["top"] = true
							rs := callee.Signature.Results()
							for i := 0; i < rs.Len(); i++ {
								if pt, ok := rs.At(i).Type().Underlying().(*types.Pointer); ok {
									if st, ok := pt.Elem().Underlying().(*types.Struct); ok {
										ss := f.vc.structSortOf(pt.Elem(), st)
										for _, fl := range ss.Fields {
											mod["H$"+ss.Name+"$"+fl.Name] = true
											f.registerHeapKey("H$" + ss.Name + "$" + fl.Name)
										}
									}
								}
							}
						}
					} else if _, inRepo := f.vc.dirOf(callee); inRepo {
						// inlined callee: its allocations advance top and initialise fields
						if allocs := f.vc.allocKeys(callee, 0); len(allocs) > 0 {
							for k := range allocs {
								mod[k] = true
								if strings.HasPrefix(k, "H$") {
									f.registerHeapKey(k)
								}
							}
						}
					}
				}
				if com.IsInvoke() {
					if con := f.vc.cs.Funcs[":invoke."+typeBaseName(com.Value.Type())+"."+com.Method.Name()]; con != nil {
						for _, g := range con.Modifies {
							mod[ghostKey(g)] = true
							if gs, _, ok := f.vc.ghostSort(g); ok {
								f.vc.heapSorts[ghostKey(g)] = gs
							}
						}
					}
				}
				if f.emitSeq != "" {
					mod[f.emitSeq] = true
				}
				if mc, ok := com.Value.(*ssa.MakeClosure); ok {
					for k := range f.vc.effectsOf(mc.Fn.(*ssa.Function)) {
						mod[k] = true
					}
					// closure writes to captured cells
					for _, b := range mc.Bindings {
						if a, ok := b.(*ssa.Alloc); ok {
							mod["C$"+f.pfx+a.Name()] = true
						}
					}
				}
			}
		}
	}
	return mod
}

// loopWritesExisting: heap keys that the loop may write in objects that already
// existed when the loop was entered (as opposed to objects allocated inside it).
func (f *fctx) loopWritesExisting(h *ssa.BasicBlock) map[string]bool {
	out := map[string]bool{}
	inLoop := map[*ssa.BasicBlock]bool{}
	for _, b := range f.inLoop[h] {
		inLoop[b] = true
	}
	var freshInLoop func(v ssa.Value, depth int) bool
	freshInLoop = func(v ssa.Value, depth int) bool {
		if depth > 8 {
			return false
		}
		switch x := v.(type) {
		case *ssa.Alloc:
			return inLoop[x.Block()]
		case *ssa.FieldAddr:
			return freshInLoop(x.X, depth+1)
		case *ssa.IndexAddr:
			return freshInLoop(x.X, depth+1)
		case *ssa.Call:
			if c := x.Call.StaticCallee(); c != nil && inLoop[x.Block()] {
				if con := f.vc.contractOf(c); con != nil && len(con.Fresh) > 0 {
					return true
				}
				return f.vc.returnsFresh(c, 0, 0)
			}
		case *ssa.Extract:
			if call, ok := x.Tuple.(*ssa.Call); ok && inLoop[call.Block()] {
				if c := call.Call.StaticCallee(); c != nil {
					return f.vc.returnsFresh(c, x.Index, 0)
				}
			}
		}
		return false
	}
	allKeysOf := func(t types.Type) []string {
		pt, ok := t.Underlying().(*types.Pointer)
		if !ok {
			return nil
		}
		st, ok := pt.Elem().Underlying().(*types.Struct)
		if !ok {
			return nil
		}
		ss := f.vc.structSortOf(pt.Elem(), st)
		var ks []string
		for _, fl := range ss.Fields {
			ks = append(ks, "H$"+ss.Name+"$"+fl.Name)
		}
		return ks
	}
	for _, b := range f.inLoop[h] {
		for _, ins := range b.Instrs {
			switch x := ins.(type) {
			case *ssa.Store:
				if freshInLoop(x.Addr, 0) {
					continue
				}
				root := rootOfAddr(x.Addr)
				if fa, ok := root.(*ssa.FieldAddr); ok {
					if key, ok := f.vc.heapKeyOfFieldAddr(fa); ok {
						out[key] = true
					}
				} else if _, isAlloc := root.(*ssa.Alloc); !isAlloc {
					for _, k := range allKeysOf(x.Addr.Type()) {
						out[k] = true
					}
				} else {
					for _, k := range allKeysOf(x.Addr.Type()) {
						out[k] = true
					}
				}
			case ssa.CallInstruction:
				callee := x.Common().StaticCallee()
				if callee == nil {
					continue
				}
				args := x.Common().Args
				for key, vias := range f.vc.effectsVia(callee) {
					for via := range vias {
						if via >= 0 && via < len(args) && freshInLoop(args[via], 0) {
							continue
						}
						out[key] = true
					}
				}
			}
		}
	}
	return out
}

func (vc *VC) allocKeys(fn *ssa.Function, depth int) map[string]bool {
	out := map[string]bool{}
	if depth > 4 || fn.Blocks == nil {
		return out
	}
	for _, b := range fn.Blocks {
		for _, ins := range b.Instrs {
			switch ins := ins.(type) {
			case *ssa.Alloc:
				out["top"] = true
				if st, ok := ins.Type().(*types.Pointer).Elem().Underlying().(*types.Struct); ok {
					ss := vc.structSortOf(ins.Type().(*types.Pointer).Elem(), st)
					for _, fl := range ss.Fields {
						out["H$"+ss.Name+"$"+fl.Name] = true
					}
				}
			case ssa.CallInstruction:
				if c := ins.Common().StaticCallee(); c != nil {
					if _, inRepo := vc.dirOf(c); inRepo {
						for k := range vc.allocKeys(c, depth+1) {
							out[k] = true
						}
					}
				}
			}
		}
	}
	return out
}

func (f *fctx) registerHeapKey(k string) {
	if _, ok := f.vc.heapSorts[k]; ok {
		return
	}
	parts := strings.Split(k, "$")
	if len(parts) != 3 {
		return
	}
	if ss, ok := f.vc.structSorts[parts[1]]; ok {
		for _, fl := range ss.Fields {
			if fl.Name == parts[2] {
				f.vc.heapSorts[k] = ArrOf(fl.Sort)
			}
		}
	}
}

// loopEnv resolves names for an invariant at loop header h.  When from is
// non-nil, phi names resolve to the values flowing in along the edge from->h.
func (f *fctx) loopEnv(h *ssa.BasicBlock, from *ssa.BasicBlock, st *State) *Env {
	vars := map[string]Term{}
	// a contract-less helper translated in place: the names of the enclosing function at the call site stay
	// visible (invariants of loops that were extracted into the helper keep talking about them)
	if f.inline && f.parent != nil && f.callBlock != nil {
		for n, t := range f.parent.namesAt(f.callBlock, st) {
			vars[n] = t
		}
	}
	for n, t := range f.paramTerms {
		vars[n] = t
	}
	// values of named variables reaching the header
	for name, v := range f.reachingDefs(h) {
		if key, ok := f.mapKey[v]; ok {
			if t, ok := st.cells[key]; ok {
				if t.Ty == nil {
					t.Ty = v.Type()
				}
				vars[name] = t
			}
			continue
		}
		if t, ok := f.vals[v]; ok && t.Sort.Kind != KFunc && t.Sort.Kind != KTuple {
			vars[name] = t
		}
	}
	for _, ins := range h.Instrs {
		phi, ok := ins.(*ssa.Phi)
		if !ok {
			break
		}
		name := strings.TrimPrefix(phi.Comment, "#")
		var t Term
		if from == nil {
			t = f.vals[phi]
		} else {
			for j, pp := range h.Preds {
				if pp == from {
					t = f.val(phi.Edges[j])
				}
			}
		}
		t.Ty = phi.Type()
		if name == "rangeindex" {
			vars["$i"] = T(SInt, "(+ %s 1)", t.S)
			continue
		}
		if name != "" {
			vars[name] = t
		}
		vars["$"+phi.Name()] = t
	}
	// an index loop `for i := 0; i < n; i++` has no range index: its canonical induction variable plays the part
	// (so that a range loop rewritten as an index loop still matches invariants written with $i)
	if _, has := vars["$i"]; !has {
		if phi := canonicalInduction(h); phi != nil {
			var t Term
			if from == nil {
				t = f.vals[phi]
			} else {
				for j, pp := range h.Preds {
					if pp == from {
						t = f.val(phi.Edges[j])
					}
				}
			}
			if t.S != "" {
				vars["$i"] = t
			}
		}
	}
	for hh, ord := range f.loopOrd {
		key := fmt.Sprintf("$i%d", ord)
		if phi := canonicalInduction(hh); phi != nil && !hasRangeIndex(hh) {
			if t, ok := f.vals[phi]; ok && !(hh == h && from != nil) {
				vars[key] = t
			}
		}
	}
	// range indices of every loop already entered, by loop ordinal: $i0, $i1, ...
	ordShift := 0
	if f.inline && f.parent != nil && f.callBlock != nil {
		if root := f.rootFctx(); root.fn != nil {
			ordShift = countLoops(root.fn)
		}
	}
	for hh, ord := range f.loopOrd {
		ord += ordShift
		for _, ins := range hh.Instrs {
			phi, ok := ins.(*ssa.Phi)
			if !ok {
				break
			}
			if phi.Comment == "rangeindex" {
				if t, ok := f.vals[phi]; ok {
					if hh == h && from != nil {
						continue
					}
					vars[fmt.Sprintf("$i%d", ord)] = T(SInt, "(+ %s 1)", t.S)
				}
			}
		}
	}
	// iteration counters of map ranges
	funcs := map[string]FuncSym{}
	for _, ri := range f.ranges {
		if t, ok := st.cells[ri.iterKey]; ok && f.rangeBelongsTo(ri, h) {
			vars["$n"] = t
			vars["$size"] = T(SInt, "(map.size %s)", ri.mapTerm.S)
			funcs["$key"] = FuncSym{Name: ri.ks, Res: ri.keySort}
		}
	}
	// bound of a rangeindex loop: the value the index is compared with
	if lenV := rangeIndexBound(h); lenV != nil {
		if t, ok := f.vals[lenV]; ok {
			vars["$len"] = t
		}
	} else if phi := canonicalInduction(h); phi != nil {
		if x := counterLenOperand(h, phi); x != nil {
			if t := f.sliceTermOf(x); t != nil {
				vars["$len"] = T(SInt, "(seq.len %s)", t.S)
			}
		}
	}
	if f.emitSeq != "" {
		if t, ok := st.cells[f.emitSeq]; ok {
			vars["$emitted"] = t
		}
	}
	if f.ndigits != nil {
		vars["$ndigits"] = *f.ndigits
	}
	// captured / address-taken local variables by name
	for k, t := range st.cells {
		if strings.HasPrefix(k, "C$") || strings.HasPrefix(k, "M$") {
			if n, ok := f.cellNames()[k]; ok {
				if _, exists := vars[n]; !exists {
					if t.Ty == nil {
						t.Ty = f.cellTypes()[k]
					}
					vars[n] = t
				}
			}
		}
	}
	sorts := f.vc.typeParamSorts(f.fn)
	pure := f.vc.pureResolver(f.fn)
	reveal := f.revealSet()
	env := &Env{Vars: vars, Defs: f.vc.cs.Defs, Sorts: sorts, Funcs: funcs, Pure: pure, Reveal: reveal, Ghost: f.ghostResolver(st)}
	env.FieldOf = func(x Term, field string) (Term, bool) { return f.fieldIn(st, x, field) }
	// renamed locals: in-scope named values that the contract never mentions are candidates for an unknown identifier
	env.Candidates = func() map[string]Term {
		text := f.contractText()
		out := map[string]Term{}
		for n, t := range vars {
			if strings.HasPrefix(n, "$") || t.Sort == nil || t.Sort.Kind == KFunc || t.Sort.Kind == KTuple {
				continue
			}
			if _, isParam := f.paramTerms[n]; isParam {
				continue
			}
			if mentionsIdent(text, n) {
				continue
			}
			out[n] = t
		}
		return out
	}
	env.OnRebind = func(ident, local string) {
		f.sc.Trusted[fmt.Sprintf("note: the contract names a local variable %q that does not exist in %s; the clause was bound to the only well-typed unmentioned local %q (soundness-neutral: every obligation is still checked)", ident, f.fn.Name(), local)] = true
	}
	// inside old(...) a parameter name means the value the parameter had on entry (parameters are mutable in Go)
	oldVars := map[string]Term{}
	for k, v := range vars {
		oldVars[k] = v
	}
	for n, t := range f.paramTerms {
		oldVars[n] = t
	}
	env.Old = &Env{Vars: oldVars, Defs: f.vc.cs.Defs, Sorts: sorts, Funcs: funcs, Pure: pure, Reveal: reveal, Ghost: f.ghostResolver(f.entry), FieldOf: func(x Term, field string) (Term, bool) { return f.fieldIn(f.entry, x, field) }}
	return env
}

// contractText: all clause texts of the contract being verified (root contract for inlined callees).
func (f *fctx) contractText() string {
	c := f.con
	if c == nil {
		return ""
	}
	var sb strings.Builder
	add := func(cs []Clause) {
		for _, x := range cs {
			sb.WriteString(x.Text)
			sb.WriteString("\n")
		}
	}
	add(c.Requires)
	add(c.Ensures)
	for _, l := range c.Loops {
		add(l)
	}
	return sb.String()
}

func mentionsIdent(text, name string) bool {
	for i := 0; i+len(name) <= len(text); i++ {
		j := strings.Index(text[i:], name)
		if j < 0 {
			return false
		}
		k := i + j
		before := k == 0 || !isIdentChar(text[k-1])
		after := k+len(name) == len(text) || !isIdentChar(text[k+len(name)])
		if before && after {
			return true
		}
		i = k
	}
	return false
}

func isIdentChar(b byte) bool {
	return b == '_' || b == '$' || (b >= '0' && b <= '9') || (b >= 'a' && b <= 'z') || (b >= 'A' && b <= 'Z')
}

var autoCounterInv = mustParse("0 <= $i")

func mustParse(src string) Expr {
	e, err := ParseExpr(src)
	if err != nil {
		panic(err)
	}
	return e
}

// lenBound: the header compares the counter with len(x) (a builtin call placed in the header or before the loop).
func lenBound(h *ssa.BasicBlock, phi *ssa.Phi) bool {
	return counterBound(h, phi) != nil
}

func counterBound(h *ssa.BasicBlock, phi *ssa.Phi) ssa.Value {
	for _, ins := range h.Instrs {
		if b, ok := ins.(*ssa.BinOp); ok && b.Op == token.LSS && b.X == phi {
			if c, ok := b.Y.(*ssa.Call); ok {
				if bi, ok := c.Call.Value.(*ssa.Builtin); ok && bi.Name() == "len" {
					return b.Y
				}
			}
		}
	}
	return nil
}

// counterLenOperand: the slice x when the header compares the counter with len(x) and x is defined outside the loop.
func counterLenOperand(h *ssa.BasicBlock, phi *ssa.Phi) ssa.Value {
	lv := counterBound(h, phi)
	if lv == nil {
		return nil
	}
	x := lv.(*ssa.Call).Call.Args[0]
	switch d := x.(type) {
	case *ssa.Parameter:
		return x
	case ssa.Instruction:
		if d.Block() != nil && d.Block() != h && d.Block().Dominates(h) {
			return x
		}
	}
	return nil
}

// sliceTermOf: the term of a slice value that is already translated.
func (f *fctx) sliceTermOf(x ssa.Value) *Term {
	if t, ok := f.vals[x]; ok && t.Sort != nil && t.Sort.Kind == KSeq {
		return &t
	}
	return nil
}

// namesAt: the named values of this function that are visible in block b (parameters, named locals reaching b,
// range indices $iN of the loops entered so far), for the invariants of loops extracted into an inlined helper.
func (f *fctx) namesAt(b *ssa.BasicBlock, st *State) map[string]Term {
	out := map[string]Term{}
	if f.inline && f.parent != nil && f.callBlock != nil {
		for n, t := range f.parent.namesAt(f.callBlock, st) {
			out[n] = t
		}
	}
	for n, t := range f.paramTerms {
		out[n] = t
	}
	defs := f.reachingDefs(b)
	// b itself is not a dominator of b: add the phis and named values defined in the dominators only (reachingDefs)
	for name, v := range defs {
		if key, ok := f.mapKey[v]; ok {
			if t, ok := st.cells[key]; ok {
				if t.Ty == nil {
					t.Ty = v.Type()
				}
				out[name] = t
			}
			continue
		}
		if t, ok := f.vals[v]; ok && t.Sort != nil && t.Sort.Kind != KFunc && t.Sort.Kind != KTuple {
			out[name] = t
		}
	}
	for hh, ord := range f.loopOrd {
		if !(hh == b || hh.Dominates(b)) {
			continue
		}
		for _, ins := range hh.Instrs {
			phi, ok := ins.(*ssa.Phi)
			if !ok {
				break
			}
			if phi.Comment == "rangeindex" {
				if t, ok := f.vals[phi]; ok {
					out[fmt.Sprintf("$i%d", ord)] = T(SInt, "(+ %s 1)", t.S)
				}
			}
		}
		if phi := canonicalInduction(hh); phi != nil {
			if t, ok := f.vals[phi]; ok {
				out[fmt.Sprintf("$i%d", ord)] = t
			}
		}
	}
	return out
}

func hasRangeIndex(h *ssa.BasicBlock) bool {
	for _, ins := range h.Instrs {
		if p, ok := ins.(*ssa.Phi); ok && p.Comment == "rangeindex" {
			return true
		}
	}
	return false
}

// canonicalInduction: the phi of header h that starts at the constant 0 and is incremented by 1 on the back edge.
func canonicalInduction(h *ssa.BasicBlock) *ssa.Phi {
	if hasRangeIndex(h) {
		return nil
	}
	for _, ins := range h.Instrs {
		phi, ok := ins.(*ssa.Phi)
		if !ok {
			break
		}
		zero, step := false, false
		for _, e := range phi.Edges {
			if c, ok := e.(*ssa.Const); ok && c.Value != nil && c.Int64() == 0 {
				zero = true
				continue
			}
			if b, ok := e.(*ssa.BinOp); ok && b.Op == token.ADD {
				if c, ok := b.Y.(*ssa.Const); ok && c.Value != nil && b.X == phi && c.Int64() == 1 {
					step = true
				}
			}
		}
		if zero && step && len(phi.Edges) == 2 {
			return phi
		}
	}
	return nil
}

// rangeBelongsTo: the Next instruction of the iterator sits in header h.
func (f *fctx) rangeBelongsTo(ri *rangeInfo, h *ssa.BasicBlock) bool {
	for _, ins := range h.Instrs {
		if nx, ok := ins.(*ssa.Next); ok {
			if r, ok := f.ranges[nx.Iter]; ok && r == ri {
				return true
			}
		}
	}
	return false
}

// rangeIndexBound returns the length value a rangeindex loop compares with.
func rangeIndexBound(h *ssa.BasicBlock) ssa.Value {
	var phi *ssa.Phi
	for _, ins := range h.Instrs {
		if p, ok := ins.(*ssa.Phi); ok && p.Comment == "rangeindex" {
			phi = p
		}
	}
	if phi == nil {
		return nil
	}
	for _, ins := range h.Instrs {
		if b, ok := ins.(*ssa.BinOp); ok && b.Op == token.LSS {
			if add, ok := b.X.(*ssa.BinOp); ok && add.Op == token.ADD && add.X == phi {
				return b.Y
			}
		}
	}
	return nil
}

// cellNames maps state keys of address-taken locals and maps to source names.
// cellTypes: Go types of the named local cells (maps and address-taken variables).
func (f *fctx) cellTypes() map[string]types.Type {
	out := map[string]types.Type{}
	for _, b := range f.fn.Blocks {
		for _, ins := range b.Instrs {
			switch ins := ins.(type) {
			case *ssa.Alloc:
				out["C$"+f.pfx+ins.Name()] = ins.Type().(*types.Pointer).Elem()
			case *ssa.MakeMap:
				out["M$"+f.pfx+ins.Name()] = ins.Type()
			}
		}
	}
	return out
}

func (f *fctx) cellNames() map[string]string {
	out := map[string]string{}
	for _, b := range f.fn.Blocks {
		for _, ins := range b.Instrs {
			switch ins := ins.(type) {
			case *ssa.Alloc:
				if ins.Comment != "" {
					out["C$"+f.pfx+ins.Name()] = ins.Comment
				}
			case *ssa.DebugRef:
				if mm, ok := ins.X.(*ssa.MakeMap); ok {
					if id, ok := ins.Expr.(interface{ String() string }); ok {
						_ = id
					}
					if obj := ins.Object(); obj != nil {
						out["M$"+f.pfx+mm.Name()] = obj.Name()
					}
				}
			}
		}
	}
	return out
}

// reachingDefs: for each source variable name, the SSA value it holds on
// entry to block b (walking the dominator chain, last mention wins).
func (f *fctx) reachingDefs(b *ssa.BasicBlock) map[string]ssa.Value {
	out := map[string]ssa.Value{}
	// collect chain from entry to idom(b)
	var chain []*ssa.BasicBlock
	for d := b.Idom(); d != nil; d = d.Idom() {
		chain = append(chain, d)
	}
	for i := len(chain) - 1; i >= 0; i-- {
		d := chain[i]
		for _, ins := range d.Instrs {
			switch ins := ins.(type) {
			case *ssa.Phi:
				if n := strings.TrimPrefix(ins.Comment, "#"); n != "" && n != "rangeindex" {
					out[n] = ins
				}
			case *ssa.DebugRef:
				if ins.IsAddr {
					continue
				}
				if obj := ins.Object(); obj != nil {
					if _, isVar := obj.(*types.Var); isVar {
						out[obj.Name()] = ins.X
					}
				}
			}
		}
	}
	return out
}

func (f *fctx) checkInvariant(h, from *ssa.BasicBlock, kind string) {
	f.checkInvariantFrom(h, from, f.cur, f.edgeCondCur(from, h), kind)
}

func (f *fctx) edgeCondCur(p, b *ssa.BasicBlock) Term {
	f.reach[p] = f.curReach
	return f.edgeCond(p, b)
}

func (f *fctx) checkInvariantFrom(h, from *ssa.BasicBlock, st *State, cond Term, kind string) {
	ord := f.loopOrd[h]
	invs := f.allInvariants(h)
	saveReach, saveCur := f.curReach, f.cur
	f.curReach = cond
	f.cur = st
	env := f.loopEnv(h, from, st)
	for i, c := range invs {
		t, err := ToSMT(c.Expr, env)
		if err != nil {
			panic(specErr{fmt.Sprintf("%s:%d: %v", c.File, c.Line, err)})
		}
		tag := c.Tag
		if tag == "" {
			tag = fmt.Sprintf("%d", i)
		}
		f.oblige(kind, fmt.Sprintf("%s/loop%d.inv%s@b%d", kind, ord, tag, from.Index), wantBoolE(t), h.Instrs[0].Pos(), c.Text)
	}
	f.curReach, f.cur = saveReach, saveCur
}

// ------------------------------------------------------------ values

func (f *fctx) val(v ssa.Value) Term {
	if t, ok := f.vals[v]; ok {
		return t
	}
	switch v := v.(type) {
	case *ssa.Const:
		return f.constant(v)
	case *ssa.Function:
		return Term{S: "fn:" + v.String(), Sort: SFunc}
	case *ssa.Global:
		f.fail("address of global %s used as a value", v.Name())
	case *ssa.FreeVar:
		if p, ok := f.binds[v]; ok {
			_ = p
			f.fail("free variable %s used as a value", v.Name())
		}
	}
	if p, ok := f.places[v]; ok {
		_ = p
		f.fail("address value %s escapes to a use that is not modelled", v.Name())
	}
	f.fail("no translation for value %s (%T)", v.Name(), v)
	return Term{}
}

func (f *fctx) constant(c *ssa.Const) Term {
	s := f.vc.sortOf(c.Type())
	if c.Value == nil {
		z := ZeroOf(s)
		z.Ty = c.Type()
		if isErrorType(c.Type()) {
			return BoolLit(false)
		}
		return z
	}
	switch s.Kind {
	case KInt:
		n, ok := constant.Int64Val(constant.ToInt(c.Value))
		if ok {
			return IntLit(n)
		}
		bi, _ := new(big.Int).SetString(constant.ToInt(c.Value).ExactString(), 10)
		return BigLit(bi)
	case KBool:
		return BoolLit(constant.BoolVal(c.Value))
	case KReal:
		// the float64 value of the constant, exactly
		fl, _ := constant.Float64Val(c.Value)
		r := new(big.Rat)
		r.SetFloat64(fl)
		return RatLit(r)
	case KStr:
		return strLiteral(constant.StringVal(c.Value))
	}
	f.fail("constant of sort %s", s)
	return Term{}
}

func (f *fctx) place(v ssa.Value) *Place {
	if p, ok := f.places[v]; ok {
		return p
	}
	switch v := v.(type) {
	case *ssa.Global:
		return f.globalPlace(v)
	case *ssa.FreeVar:
		if p, ok := f.binds[v]; ok {
			return p
		}
	}
	// a pointer to a struct held as a reference value
	if pt, ok := v.Type().Underlying().(*types.Pointer); ok {
		if _, ok := pt.Elem().Underlying().(*types.Struct); ok {
			return nil
		}
	}
	f.fail("address %s (%T) is not a modelled place", v.Name(), v)
	return nil
}

func (f *fctx) globalPlace(g *ssa.Global) *Place {
	key := "G$" + g.Pkg.Pkg.Name() + "." + g.Name()
	elemTy := g.Type().(*types.Pointer).Elem()
	s := f.vc.sortOf(elemTy)
	if _, ok := f.cur.cells[key]; !ok {
		// evaluate the initialiser of the package-level variable
		val, ok := f.globalInitValue(g)
		if !ok {
			val = Term{S: key, Sort: s}
			f.sc.emit("(declare-const %s %s)", key, s.SMT())
		}
		// make it visible in every state derived from here: globals are read-only
		f.cur.cells[key] = val
		for _, st := range f.exit {
			st.cells[key] = val
		}
		if f.entry != nil {
			f.entry.cells[key] = val
		}
	}
	return &Place{Kind: PGlobal, Key: key, Sort: s, Ty: elemTy}
}

func (f *fctx) globalInitValue(g *ssa.Global) (Term, bool) {
	init := g.Pkg.Func("init")
	if init == nil {
		return Term{}, false
	}
	for _, b := range init.Blocks {
		for _, ins := range b.Instrs {
			if st, ok := ins.(*ssa.Store); ok && st.Addr == g {
				// translate the stored value if it is a pure expression over constants
				t, ok := f.pureValue(st.Val, 0)
				return t, ok
			}
		}
	}
	return Term{}, false
}

func (f *fctx) pureValue(v ssa.Value, depth int) (t Term, ok bool) {
	defer func() {
		if r := recover(); r != nil {
			if _, isU := r.(unsupported); isU {
				ok = false
				return
			}
			panic(r)
		}
	}()
	if depth > 6 {
		return Term{}, false
	}
	switch v := v.(type) {
	case *ssa.Const:
		return f.constant(v), true
	case *ssa.Call:
		if callee := v.Call.StaticCallee(); callee != nil {
			var args []Term
			for _, a := range v.Call.Args {
				at, ok := f.pureValue(a, depth+1)
				if !ok {
					return Term{}, false
				}
				args = append(args, at)
			}
			if r, ok := f.mathCall(callee.String(), args); ok {
				return r, true
			}
		}
	}
	return Term{}, false
}

func (f *fctx) setVal(v ssa.Value, t Term) {
	if t.Ty == nil {
		t.Ty = v.Type()
	}
	f.vals[v] = t
}

func (f *fctx) defVal(v ssa.Value, t Term) {
	d := f.define(v.Name(), t)
	d.Ty = v.Type()
	f.vals[v] = d
}
