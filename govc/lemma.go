package main

import (
	"fmt"
	"go/types"
	"strings"
)

// TranslateLemma turns a lemma (ghost code over contracts: var / assume /
// call-by-contract / assert) into a script.  Lemmas never look at bodies.
func (vc *VC) TranslateLemma(l *Lemma) (sc *Script, err error) {
	name := "lemma." + l.Name
	sc = newScript(name)
	sc.Lemma = l
	sc.QuickStride = l.QuickStride
	sc.Tactic = l.Tactic
	sc.Splits = l.Splits
	sc.Pos = fmt.Sprintf("%s:%d", strings.TrimPrefix(l.File, vc.repo+"/"), l.Line)
	defer func() {
		if r := recover(); r != nil {
			if u, ok := r.(unsupported); ok {
				err = fmt.Errorf("outside-subset: %s", u.what)
				return
			}
			if se, ok := r.(specErr); ok {
				err = fmt.Errorf("contract error: %s", se.msg)
				return
			}
			panic(r)
		}
	}()
	cnt := 0
	f := vc.newFctx(nil, &Contract{Loops: map[int][]Clause{}}, sc, "", &cnt)
	f.lemmaReveal = l.Reveal
	if l.Float == "ideal" {
		f.ideal = true
		sc.Ideal = true
		sc.Trusted["float64 arithmetic treated as real arithmetic in this lemma (float ideal)"] = true
	}
	f.cur = &State{cells: map[string]Term{}}
	f.entry = f.cur
	f.curReach = BoolLit(true)
	vars := map[string]Term{}
	env := func() *Env {
		e := &Env{Vars: vars, Defs: vc.cs.Defs, Pure: vc.pureResolverDir(l.PkgDir), Reveal: l.Reveal}
		e.FieldOf = func(x Term, field string) (Term, bool) { return f.fieldIn(f.cur, x, field) }
		return e
	}
	nAssert, nCall := 0, 0
	for _, st := range l.Stmts {
		switch st.Kind {
		case "var":
			s := vc.lemmaSort(l, st.Sort)
			nm := "v!" + st.Name
			sc.Params = append(sc.Params, ParamDecl{Name: nm, Source: st.Name, Sort: s})
			t := Term{S: nm, Sort: s}
			vars[st.Name] = t
			switch s.Kind {
			case KStr:
				f.assume(T(SBool, "(str.wf %s)", nm))
			case KSeq:
				f.assume(T(SBool, "(and (>= (seq.len %s) 0) (<= (seq.len %s) max64))", nm, nm))
				if s.Elem.Kind == KStr {
					f.assume(T(SBool, "(forall ((q!k Int)) (! (str.wf (select (seq.el %s) q!k)) :pattern ((select (seq.el %s) q!k))))", nm, nm))
				}
			}
		case "assume":
			t, e := ToSMT(st.Clause.Expr, env())
			if e != nil {
				return nil, fmt.Errorf("contract error: %s:%d: %v", st.Clause.File, st.Clause.Line, e)
			}
			f.assume(wantBoolE(t))
		case "assert":
			t, e := ToSMT(st.Clause.Expr, env())
			if e != nil {
				return nil, fmt.Errorf("contract error: %s:%d: %v", st.Clause.File, st.Clause.Line, e)
			}
			tag := st.Clause.Tag
			if tag == "" {
				tag = fmt.Sprint(nAssert)
			}
			nAssert++
			ob := &Obligation{Name: "L/assert" + tag, Kind: "L", Goal: Implies(f.curReach, wantBoolE(t)).S, Pos: fmt.Sprintf("%s:%d", strings.TrimPrefix(st.Clause.File, vc.repo+"/"), st.Clause.Line), Desc: st.Clause.Text, Func: name}
			sc.Items = append(sc.Items, Item{Ob: ob})
			// a proved assertion may be used by later ones (not under the nonlinear tactic: every assertion there is a
			// polynomial identity on its own, and an assumed identity only enlarges the later queries)
			if l.Tactic != "nlsat" {
				f.assumeCut(t)
			}
		case "call":
			key := st.Callee
			if !strings.Contains(key, ":") {
				key = l.PkgDir + ":" + key
			}
			callee := vc.funcsByKey[key]
			con := vc.cs.Funcs[key]
			if callee == nil || con == nil {
				return nil, fmt.Errorf("contract-detached: lemma %s calls %s which has no function or no contract", l.Name, key)
			}
			var args []Term
			for _, a := range st.Args {
				t, e := ToSMT(a, env())
				if e != nil {
					return nil, fmt.Errorf("contract error: %s:%d: %v", st.Clause.File, st.Clause.Line, e)
				}
				args = append(args, t)
			}
			if len(args) != len(callee.Params) {
				return nil, fmt.Errorf("contract error: %s:%d: %s takes %d arguments", st.Clause.File, st.Clause.Line, key, len(callee.Params))
			}
			for i, p := range callee.Params {
				args[i].Ty = p.Type()
			}
			nCall++
			res := f.applyContract(callee, con, args, callee.Pos(), fmt.Sprintf("call%d", nCall))
			for i, r := range st.Results {
				if r == "_" || i >= len(res) {
					continue
				}
				vars[r] = res[i]
			}
		}
	}
	sc.Items = append([]Item{}, sc.Items...)
	// vacuity guard: the hypotheses of the lemma are satisfiable
	sc.Items = append(sc.Items, Item{Ob: &Obligation{Name: "V/hypotheses-sat", Kind: "V", Goal: "true", ExpectSat: true, Func: name, Desc: "lemma hypotheses satisfiable"}})
	for _, sp := range l.Splits {
		if _, ok := vars[sp.Var]; !ok {
			return nil, fmt.Errorf("contract error: lemma %s: split variable %s is not declared", l.Name, sp.Var)
		}
	}
	return sc, nil
}

// lemmaSort: the basic sort names, or a named Go type of the lemma's package (value structs, arrays).
func (vc *VC) lemmaSort(l *Lemma, name string) *Sort {
	switch name {
	case "int", "real", "str", "bool", "atom", "strs", "ints", "any":
		return sortByName(name)
	}
	for key, fn := range vc.funcsByKey {
		if strings.HasPrefix(key, l.PkgDir+":") && fn.Pkg != nil {
			if obj := fn.Pkg.Pkg.Scope().Lookup(name); obj != nil {
				if tn, ok := obj.(*types.TypeName); ok {
					return vc.sortOf(tn.Type())
				}
			}
		}
	}
	specFail("lemma %s: unknown sort or type %q", l.Name, name)
	return nil
}
