package main

import (
	"fmt"
	"go/types"
	"math"
	"math/big"
	"sort"
	"strings"
)

// Contract expression language: a small Go-like expression syntax with
// ==>, <==>, chained comparisons, forall/exists, and spec functions.

type Expr interface{ String() string }

type (
	EIdent struct{ Name string }
	ENum   struct {
		Int  *big.Int
		Rat  *big.Rat // non-nil for decimal literals
		Text string
	}
	EStr   struct{ Val string }
	EUnary struct {
		Op string
		X  Expr
	}
	EBinary struct {
		Op   string
		X, Y Expr
	}
	ECall struct {
		Fn   string
		Args []Expr
	}
	EIndex struct{ X, I Expr }
	ESel   struct {
		X Expr
		F string
	}
	EQuant struct {
		Forall bool
		Vars   []string
		Sorts  []string
		Body   Expr
	}
)

func (e *EIdent) String() string { return e.Name }
func (e *ENum) String() string   { return e.Text }
func (e *EStr) String() string   { return fmt.Sprintf("%q", e.Val) }
func (e *EUnary) String() string { return e.Op + e.X.String() }
func (e *EBinary) String() string {
	return "(" + e.X.String() + " " + e.Op + " " + e.Y.String() + ")"
}
func (e *ECall) String() string {
	var a []string
	for _, x := range e.Args {
		a = append(a, x.String())
	}
	return e.Fn + "(" + strings.Join(a, ", ") + ")"
}
func (e *EIndex) String() string { return e.X.String() + "[" + e.I.String() + "]" }
func (e *ESel) String() string   { return e.X.String() + "." + e.F }
func (e *EQuant) String() string {
	q := "exists"
	if e.Forall {
		q = "forall"
	}
	return "(" + q + " " + strings.Join(e.Vars, ",") + " :: " + e.Body.String() + ")"
}

// ------------------------------------------------------------ lexer

type ltok struct {
	kind string // id num str op eof
	text string
}

func lex(s string) ([]ltok, error) {
	var out []ltok
	i := 0
	ops := []string{"<==>", "==>", "::", "<=", ">=", "==", "!=", "&&", "||", "<<", ">>", "..",
		"+", "-", "*", "/", "%", "<", ">", "!", "(", ")", "[", "]", ",", ".", ":"}
	for i < len(s) {
		c := s[i]
		if c == ' ' || c == '\t' {
			i++
			continue
		}
		if c >= '0' && c <= '9' {
			j := i
			for j < len(s) && (s[j] >= '0' && s[j] <= '9' || s[j] == '_') {
				j++
			}
			if j+1 < len(s) && s[j] == '.' && s[j+1] >= '0' && s[j+1] <= '9' {
				j++
				for j < len(s) && s[j] >= '0' && s[j] <= '9' {
					j++
				}
			}
			if j < len(s) && (s[j] == 'e' || s[j] == 'E') {
				k := j + 1
				if k < len(s) && (s[k] == '-' || s[k] == '+') {
					k++
				}
				if k < len(s) && s[k] >= '0' && s[k] <= '9' {
					for k < len(s) && s[k] >= '0' && s[k] <= '9' {
						k++
					}
					j = k
				}
			}
			out = append(out, ltok{"num", s[i:j]})
			i = j
			continue
		}
		if c == '_' || c == '$' || c == '#' || (c >= 'a' && c <= 'z') || (c >= 'A' && c <= 'Z') {
			j := i + 1
			for j < len(s) && (s[j] == '_' || s[j] == '$' || s[j] == '\'' || (s[j] >= 'a' && s[j] <= 'z') || (s[j] >= 'A' && s[j] <= 'Z') || (s[j] >= '0' && s[j] <= '9')) {
				j++
			}
			out = append(out, ltok{"id", s[i:j]})
			i = j
			continue
		}
		if c == '"' {
			j := i + 1
			for j < len(s) && s[j] != '"' {
				j++
			}
			if j >= len(s) {
				return nil, fmt.Errorf("unterminated string")
			}
			out = append(out, ltok{"str", s[i+1 : j]})
			i = j + 1
			continue
		}
		matched := false
		for _, op := range ops {
			if strings.HasPrefix(s[i:], op) {
				out = append(out, ltok{"op", op})
				i += len(op)
				matched = true
				break
			}
		}
		if !matched {
			return nil, fmt.Errorf("bad character %q at %d in %q", c, i, s)
		}
	}
	out = append(out, ltok{"eof", ""})
	return out, nil
}

type parser struct {
	toks []ltok
	pos  int
}

func ParseExpr(s string) (e Expr, err error) {
	toks, err := lex(s)
	if err != nil {
		return nil, err
	}
	p := &parser{toks: toks}
	defer func() {
		if r := recover(); r != nil {
			err = fmt.Errorf("parse error in %q: %v", s, r)
		}
	}()
	e = p.parseImpl()
	if p.peek().kind != "eof" {
		panic("unexpected " + p.peek().text)
	}
	return e, nil
}

func (p *parser) peek() ltok { return p.toks[p.pos] }
func (p *parser) next() ltok { t := p.toks[p.pos]; p.pos++; return t }
func (p *parser) isOp(op string) bool {
	t := p.peek()
	return t.kind == "op" && t.text == op
}
func (p *parser) expect(op string) {
	if !p.isOp(op) {
		panic(fmt.Sprintf("expected %q, got %q", op, p.peek().text))
	}
	p.pos++
}

func (p *parser) parseImpl() Expr {
	l := p.parseOr()
	if p.isOp("==>") {
		p.next()
		r := p.parseImpl()
		return &EBinary{"==>", l, r}
	}
	if p.isOp("<==>") {
		p.next()
		r := p.parseImpl()
		return &EBinary{"<==>", l, r}
	}
	return l
}

func (p *parser) parseOr() Expr {
	l := p.parseAnd()
	for p.isOp("||") {
		p.next()
		r := p.parseAnd()
		l = &EBinary{"||", l, r}
	}
	return l
}

func (p *parser) parseAnd() Expr {
	l := p.parseCmp()
	for p.isOp("&&") {
		p.next()
		r := p.parseCmp()
		l = &EBinary{"&&", l, r}
	}
	return l
}

func isCmp(t ltok) bool {
	if t.kind != "op" {
		return false
	}
	switch t.text {
	case "==", "!=", "<", "<=", ">", ">=":
		return true
	}
	return false
}

func (p *parser) parseCmp() Expr {
	l := p.parseAdd()
	var res Expr
	for isCmp(p.peek()) {
		op := p.next().text
		r := p.parseAdd()
		c := &EBinary{op, l, r}
		if res == nil {
			res = c
		} else {
			res = &EBinary{"&&", res, c}
		}
		l = r
	}
	if res == nil {
		return l
	}
	return res
}

func (p *parser) parseAdd() Expr {
	l := p.parseMul()
	for p.isOp("+") || p.isOp("-") {
		op := p.next().text
		r := p.parseMul()
		l = &EBinary{op, l, r}
	}
	return l
}

func (p *parser) parseMul() Expr {
	l := p.parseUnary()
	for p.isOp("*") || p.isOp("/") || p.isOp("%") || p.isOp("<<") || p.isOp(">>") {
		op := p.next().text
		r := p.parseUnary()
		l = &EBinary{op, l, r}
	}
	return l
}

func (p *parser) parseUnary() Expr {
	if p.isOp("-") || p.isOp("!") {
		op := p.next().text
		x := p.parseUnary()
		return &EUnary{op, x}
	}
	return p.parsePostfix()
}

func (p *parser) parsePostfix() Expr {
	e := p.parsePrimary()
	for {
		switch {
		case p.isOp("("):
			id, ok := e.(*EIdent)
			if !ok {
				panic("call of non-identifier")
			}
			p.next()
			var args []Expr
			if !p.isOp(")") {
				for {
					args = append(args, p.parseImpl())
					if p.isOp(",") {
						p.next()
						continue
					}
					break
				}
			}
			p.expect(")")
			e = &ECall{id.Name, args}
		case p.isOp("["):
			p.next()
			i := p.parseImpl()
			p.expect("]")
			e = &EIndex{e, i}
		case p.isOp("."):
			p.next()
			t := p.next()
			if t.kind != "id" {
				panic("expected field name")
			}
			e = &ESel{e, t.text}
		default:
			return e
		}
	}
}

func (p *parser) parsePrimary() Expr {
	t := p.next()
	switch t.kind {
	case "num":
		txt := strings.ReplaceAll(t.text, "_", "")
		if strings.ContainsAny(txt, ".eE") {
			r, ok := new(big.Rat).SetString(txt)
			if !ok {
				panic("bad number " + txt)
			}
			return &ENum{Rat: r, Text: txt}
		}
		n, ok := new(big.Int).SetString(txt, 10)
		if !ok {
			panic("bad number " + txt)
		}
		return &ENum{Int: n, Text: txt}
	case "str":
		return &EStr{t.text}
	case "id":
		if t.text == "forall" || t.text == "exists" {
			q := &EQuant{Forall: t.text == "forall"}
			for {
				v := p.next()
				if v.kind != "id" {
					panic("expected binder")
				}
				srt := "int"
				if p.isOp(":") {
					p.next()
					st := p.next()
					srt = st.text
				}
				q.Vars = append(q.Vars, v.text)
				q.Sorts = append(q.Sorts, srt)
				if p.isOp(",") {
					p.next()
					continue
				}
				break
			}
			p.expect("::")
			q.Body = p.parseImpl()
			return q
		}
		return &EIdent{t.text}
	case "op":
		if t.text == "(" {
			e := p.parseImpl()
			p.expect(")")
			return e
		}
	}
	panic("unexpected token " + t.text)
}

// ------------------------------------------------------------ to SMT

// Env resolves free identifiers of a contract expression.
type Env struct {
	Vars   map[string]Term
	Lookup func(name string) (Term, bool)
	// Old resolves an expression in the pre-state (nil: same state)
	Old *Env
	// field access on object references: (ref term, field) -> term
	FieldOf func(x Term, field string) (Term, bool)
	Defs    map[string]*SpecDef
	Sorts   map[string]*Sort                            // named sorts (type parameters)
	Funcs   map[string]FuncSym                          // uninterpreted function symbols visible to the contract ($key)
	Pure    func(name string, args []Term) (Term, bool) // application of a pure repository function
	Reveal  map[string]bool
	Ghost   func(name string, args []Term) (Term, bool) // ghost relation in the state this environment describes
	// Candidates lists in-scope named values that no clause of the contract mentions: when a clause names a local
	// variable that does not exist (renamed in the code), each candidate is tried and a unique well-typed one is used.
	Results    func(callee string, k int) (Term, bool) // results of calls made in the body ($result)
	Candidates func() map[string]Term
	OnRebind   func(ident, local string)
}

type FuncSym struct {
	Name string
	Res  *Sort
}

type SpecDef struct {
	Name       string
	Params     []string
	Sorts      []string
	Body       Expr
	Rec        bool // recursive: emitted once as define-fun-rec, applied by name
	Opaque     bool // applied as an uninterpreted symbol unless the contract reveals it
	IntResult  bool // opaque symbol of sort Int (default Bool)
	StrResult  bool // opaque symbol of sort Str
	StrsResult bool // opaque symbol of sort (GSeq Str)
}

func (env *Env) child() *Env {
	n := &Env{Vars: map[string]Term{}, Lookup: env.Lookup, Old: env.Old, FieldOf: env.FieldOf, Defs: env.Defs, Sorts: env.Sorts, Funcs: env.Funcs, Pure: env.Pure, Reveal: env.Reveal, Ghost: env.Ghost, Candidates: env.Candidates, OnRebind: env.OnRebind, Results: env.Results}
	for k, v := range env.Vars {
		n.Vars[k] = v
	}
	return n
}

func (env *Env) get(name string) (Term, bool) {
	if t, ok := env.Vars[name]; ok {
		return t, true
	}
	if env.Lookup != nil {
		return env.Lookup(name)
	}
	return Term{}, false
}

func (env *Env) sortByName(n string) *Sort {
	if env != nil && env.Sorts != nil {
		if s, ok := env.Sorts[n]; ok {
			return s
		}
	}
	return sortByName(n)
}

func sortByName(n string) *Sort {
	switch n {
	case "int":
		return SInt
	case "real":
		return SReal
	case "str":
		return SStr
	case "bool":
		return SBool
	case "atom":
		return SAtom
	case "strs":
		return SeqOf(SStr)
	case "ints":
		return SeqOf(SInt)
	case "intarr":
		return ArrOf(SInt) // fixed-size Go arrays of integers ([2]int64 map keys)
	case "any":
		return SAny
	}
	panic("unknown sort name " + n)
}

type specErr struct{ msg string }

func specFail(format string, args ...interface{}) {
	panic(specErr{fmt.Sprintf(format, args...)})
}

func ToSMT(e Expr, env *Env) (t Term, err error) {
	return toSMTRebinding(e, env, 0)
}

func toSMTRebinding(e Expr, env *Env, depth int) (t Term, err error) {
	t, err = toSMTOnce(e, env)
	if err == nil || env == nil || env.Candidates == nil || depth > 3 {
		return t, err
	}
	const marker = "unknown identifier "
	msg := err.Error()
	i := strings.Index(msg, marker)
	if i < 0 {
		return t, err
	}
	ident := msg[i+len(marker):]
	if j := strings.IndexAny(ident, " ("); j >= 0 {
		ident = ident[:j]
	}
	var okNames []string
	var okTerm Term
	cands := env.Candidates()
	names := make([]string, 0, len(cands))
	for n := range cands {
		names = append(names, n)
	}
	sort.Strings(names)
	for _, n := range names {
		c := env.child()
		c.Candidates = func() map[string]Term {
			m := map[string]Term{}
			for k, v := range cands {
				if k != n {
					m[k] = v
				}
			}
			return m
		}
		c.OnRebind = env.OnRebind
		c.Vars[ident] = cands[n]
		if c.Old != nil {
			o := *c.Old
			o.Vars = map[string]Term{}
			for k, v := range c.Old.Vars {
				o.Vars[k] = v
			}
			o.Vars[ident] = cands[n]
			c.Old = &o
		}
		if t2, err2 := toSMTRebinding(e, c, depth+1); err2 == nil {
			okNames = append(okNames, n)
			okTerm = t2
		}
	}
	if len(okNames) == 1 {
		if env.OnRebind != nil {
			env.OnRebind(ident, okNames[0])
		}
		return okTerm, nil
	}
	return t, err
}

func toSMTOnce(e Expr, env *Env) (t Term, err error) {
	defer func() {
		if r := recover(); r != nil {
			if se, ok := r.(specErr); ok {
				err = fmt.Errorf("%s (in %s)", se.msg, e.String())
				return
			}
			panic(r)
		}
	}()
	return toSMT(e, env), nil
}

func arith(op string, a, b Term) Term {
	if a.Sort.Kind == KReal || b.Sort.Kind == KReal {
		a, b = toReal(a), toReal(b)
		return Term{S: "(" + op + " " + a.S + " " + b.S + ")", Sort: SReal}
	}
	if a.Sort.Kind != KInt || b.Sort.Kind != KInt {
		specFail("arithmetic on %s and %s", a.Sort, b.Sort)
	}
	return Term{S: "(" + op + " " + a.S + " " + b.S + ")", Sort: SInt}
}

func cmpT(op string, a, b Term) Term {
	if a.Sort.Kind == KReal || b.Sort.Kind == KReal {
		a, b = toReal(a), toReal(b)
	}
	return Term{S: "(" + op + " " + a.S + " " + b.S + ")", Sort: SBool}
}

func wantBool(t Term) Term {
	if t.Sort.Kind != KBool {
		specFail("expected bool, got %s: %s", t.Sort, t.S)
	}
	return t
}

func wantInt(t Term) Term {
	if t.Sort.Kind != KInt {
		specFail("expected int, got %s: %s", t.Sort, t.S)
	}
	return t
}

func toSMT(e Expr, env *Env) Term {
	switch e := e.(type) {
	case *ENum:
		if e.Rat != nil {
			return RatLit(e.Rat)
		}
		return BigLit(e.Int)
	case *EStr:
		return strLiteral(e.Val)
	case *EIdent:
		switch e.Name {
		case "pi":
			r := new(big.Rat)
			r.SetFloat64(3.141592653589793) // math.Pi as a float64
			return RatLit(r)
		case "deg2rad":
			r := new(big.Rat)
			r.SetFloat64(math.Pi / 180) // the float64 constant the compiler folds math.Pi/180 to
			return RatLit(r)
		case "rad2deg":
			r := new(big.Rat)
			r.SetFloat64(180 / math.Pi)
			return RatLit(r)
		case "true":
			return BoolLit(true)
		case "false":
			return BoolLit(false)
		case "nil":
			return IntLit(0)
		}
		if t, ok := env.get(e.Name); ok {
			return t
		}
		if d, ok := env.Defs[e.Name]; ok && len(d.Params) == 0 {
			return toSMT(d.Body, &Env{Vars: map[string]Term{}, Defs: env.Defs})
		}
		specFail("unknown identifier %s", e.Name)
	case *EUnary:
		x := toSMT(e.X, env)
		if e.Op == "!" {
			return Not(wantBool(x))
		}
		if x.Sort.Kind == KReal {
			return Term{S: "(- " + x.S + ")", Sort: SReal}
		}
		wantInt(x)
		if isIntLiteral(x.S) && !strings.HasPrefix(x.S, "(") {
			return Term{S: "(- " + x.S + ")", Sort: SInt}
		}
		return Term{S: "(- " + x.S + ")", Sort: SInt}
	case *EBinary:
		switch e.Op {
		case "==>":
			return Implies(wantBool(toSMT(e.X, env)), wantBool(toSMT(e.Y, env)))
		case "<==>":
			return EqT(wantBool(toSMT(e.X, env)), wantBool(toSMT(e.Y, env)))
		case "&&":
			return And(wantBool(toSMT(e.X, env)), wantBool(toSMT(e.Y, env)))
		case "||":
			return Or(wantBool(toSMT(e.X, env)), wantBool(toSMT(e.Y, env)))
		}
		if id, ok := e.Y.(*EIdent); ok && id.Name == "nil" && (e.Op == "==" || e.Op == "!=") {
			x := toSMT(e.X, env)
			var isnil Term
			switch x.Sort.Kind {
			case KBool: // error value: true = non-nil
				isnil = Not(x)
			case KInt:
				isnil = EqT(x, IntLit(0))
			case KAny:
				isnil = T(SBool, "(= %s any.nil)", x.S)
			default:
				specFail("nil comparison on %s", x.Sort)
			}
			if e.Op == "==" {
				return isnil
			}
			return Not(isnil)
		}
		x, y := toSMT(e.X, env), toSMT(e.Y, env)
		switch e.Op {
		case "==", "!=":
			if x.Sort.Kind == KReal || y.Sort.Kind == KReal {
				x, y = toReal(x), toReal(y)
			}
			if !x.Sort.Eq(y.Sort) {
				specFail("comparing %s with %s", x.Sort, y.Sort)
			}
			if e.Op == "==" {
				return EqT(x, y)
			}
			return Not(EqT(x, y))
		case "<", "<=", ">", ">=":
			return cmpT(e.Op, x, y)
		case "+":
			if x.Sort.Kind == KStr {
				return T(SStr, "(strcat %s %s)", x.S, y.S)
			}
			return arith("+", x, y)
		case "-":
			return arith("-", x, y)
		case "*":
			return arith("*", x, y)
		case "/":
			if x.Sort.Kind == KReal || y.Sort.Kind == KReal {
				return arith("/", x, y)
			}
			specFail("use fdiv/tdiv for integer division")
		case "%":
			specFail("use fmod/tmod for integer remainder")
		case "<<":
			return T(SInt, "(* %s (pow2 %s))", wantInt(x).S, wantInt(y).S)
		case ">>":
			return T(SInt, "(div %s (pow2 %s))", wantInt(x).S, wantInt(y).S)
		}
	case *EIndex:
		x := toSMT(e.X, env)
		i := wantInt(toSMT(e.I, env))
		switch x.Sort.Kind {
		case KSeq:
			r := T(x.Sort.Elem, "(select (seq.el %s) %s)", x.S, i.S)
			if x.Ty != nil {
				if sl, ok := x.Ty.Underlying().(*types.Slice); ok {
					r.Ty = sl.Elem()
				}
			}
			return r
		case KArr:
			return T(x.Sort.Elem, "(select %s %s)", x.S, i.S)
		case KMap:
			specFail("use mget(m,k)")
		}
		specFail("indexing %s", x.Sort)
	case *ESel:
		x := toSMT(e.X, env)
		if x.Sort.Kind == KStruct {
			for _, f := range x.Sort.Fields {
				if f.Name == e.F {
					return T(f.Sort, "(%s.%s %s)", x.Sort.Name, f.Name, x.S)
				}
			}
			specFail("no field %s in %s", e.F, x.Sort.Name)
		}
		if env.FieldOf != nil {
			if t, ok := env.FieldOf(x, e.F); ok {
				return t
			}
		}
		specFail("cannot select .%s on %s", e.F, x.Sort)
	case *EQuant:
		c := env.child()
		var binders []string
		for i, v := range e.Vars {
			s := env.sortByName(e.Sorts[i])
			name := "q!" + v
			c.Vars[v] = Term{S: name, Sort: s}
			binders = append(binders, "("+name+" "+s.SMT()+")")
		}
		body := wantBool(toSMT(e.Body, c))
		q := "exists"
		if e.Forall {
			q = "forall"
		}
		return T(SBool, "(%s (%s) %s)", q, strings.Join(binders, " "), body.S)
	case *ECall:
		return callSMT(e, env)
	}
	specFail("cannot translate %T", e)
	return Term{}
}

func strLiteral(v string) Term {
	parts := strings.Split(v, "/")
	if len(parts) > 6 {
		specFail("string literal with more than 6 fields")
	}
	atoms := make([]string, len(parts))
	for i, p := range parts {
		atoms[i] = atomLiteral(p)
	}
	return T(SStr, "(str%d %s)", len(parts), strings.Join(atoms, " "))
}

func atomLiteral(p string) string {
	if p == "" {
		return "a.empty"
	}
	if n, ok := new(big.Int).SetString(p, 10); ok {
		if n.String() == p {
			return "(a.num " + BigLit(n).S + ")"
		}
		// non-canonical numeric
		h := int64(0)
		for _, c := range p {
			h = h*131 + int64(c)
		}
		return fmt.Sprintf("(a.alt %s %d)", BigLit(n).S, h&0xffffff)
	}
	h := int64(7)
	for _, c := range p {
		h = (h*131 + int64(c)) & 0xffffffff
	}
	return fmt.Sprintf("(a.junk %d)", h+1)
}

func callSMT(e *ECall, env *Env) Term {
	if e.Fn == "old" {
		if len(e.Args) != 1 {
			specFail("old takes one argument")
		}
		if env.Old == nil {
			return toSMT(e.Args[0], env)
		}
		// bound variables of enclosing quantifiers stay visible inside old(...)
		o := *env.Old
		o.Vars = map[string]Term{}
		for k, v := range env.Vars {
			o.Vars[k] = v
		}
		for k, v := range env.Old.Vars {
			o.Vars[k] = v
		}
		return toSMT(e.Args[0], &o)
	}
	if e.Fn == "$result" {
		// $result(Callee, k): result k of the last call of Callee made in the function body (root ensures only)
		if len(e.Args) != 2 || env.Results == nil {
			specFail("$result(callee, k) is only available in the postconditions of the function being verified")
		}
		id, ok1 := e.Args[0].(*EIdent)
		num, ok2 := e.Args[1].(*ENum)
		if !ok1 || !ok2 || num.Int == nil {
			specFail("$result: want $result(Callee, k)")
		}
		t, ok := env.Results(id.Name, int(num.Int.Int64()))
		if !ok {
			specFail("$result: no call of %s on this path", id.Name)
		}
		return t
	}
	var a []Term
	for _, x := range e.Args {
		a = append(a, toSMT(x, env))
	}
	need := func(n int) {
		if len(a) != n {
			specFail("%s expects %d arguments", e.Fn, n)
		}
	}
	ints := func() string {
		var s []string
		for _, t := range a {
			s = append(s, wantInt(t).S)
		}
		return strings.Join(s, " ")
	}
	switch e.Fn {
	case "pow2":
		need(1)
		return T(SInt, "(pow2 %s)", ints())
	case "fdiv", "fmod", "tdiv", "tmod", "ashift", "anc":
		need(2)
		return T(SInt, "(%s %s)", e.Fn, ints())
	case "min", "max":
		need(2)
		if a[0].Sort.Kind == KReal || a[1].Sort.Kind == KReal {
			return T(SReal, "(r%s %s %s)", e.Fn, toReal(a[0]).S, toReal(a[1]).S)
		}
		return T(SInt, "(i%s %s)", e.Fn, ints())
	case "abs":
		need(1)
		if a[0].Sort.Kind == KReal {
			return T(SReal, "(rabs %s)", a[0].S)
		}
		return T(SInt, "(iabs %s)", ints())
	case "in64":
		need(1)
		return T(SBool, "(in64 %s)", ints())
	case "floor", "ceil", "trunc":
		need(1)
		return T(SInt, "(%s %s)", e.Fn, toReal(a[0]).S)
	case "real":
		need(1)
		return toReal(a[0])
	case "i2f":
		need(1)
		return T(SReal, "(i2f %s)", ints())
	case "tan", "cos", "sin", "atan", "sinh", "asinh", "log", "sqrt", "exp":
		need(1)
		nm := map[string]string{"tan": "m.Tan", "cos": "m.Cos", "sin": "m.Sin", "atan": "m.Atan", "sinh": "m.Sinh", "asinh": "m.Asinh", "log": "m.Log", "sqrt": "m.Sqrt", "exp": "m.Exp"}[e.Fn]
		return T(SReal, "(%s %s)", nm, toReal(a[0]).S)
	case "isint":
		need(1)
		return T(SBool, "(is_int %s)", toReal(a[0]).S)
	case "rpow2":
		need(1)
		return T(SReal, "(rpow2 %s)", ints())
	case "ite":
		need(3)
		x, y := a[1], a[2]
		if x.Sort.Kind == KReal || y.Sort.Kind == KReal {
			x, y = toReal(x), toReal(y)
		}
		return Ite(wantBool(a[0]), x, y)
	case "len":
		need(1)
		switch a[0].Sort.Kind {
		case KSeq:
			return T(SInt, "(seq.len %s)", a[0].S)
		case KMap:
			return T(SInt, "(map.size %s)", a[0].S)
		}
		specFail("len of %s", a[0].Sort)
	case "nf":
		need(1)
		return T(SInt, "(nf %s)", a[0].S)
	case "fld":
		need(2)
		return T(SAtom, "(fld %s %s)", a[0].S, wantInt(a[1]).S)
	case "sfld": // field i as a string
		need(2)
		return T(SStr, "(str1 (fld %s %s))", a[0].S, wantInt(a[1]).S)
	case "isnum":
		need(1)
		if a[0].Sort.Kind == KAtom {
			return T(SBool, "(a.isnum %s)", a[0].S)
		}
		return T(SBool, "(str.isnum %s)", a[0].S)
	case "val":
		need(1)
		if a[0].Sort.Kind == KAtom {
			return T(SInt, "(a.value %s)", a[0].S)
		}
		return T(SInt, "(str.val %s)", a[0].S)
	case "num": // canonical atom of an integer
		need(1)
		return T(SAtom, "(a.num %s)", ints())
	case "fmtint":
		need(1)
		return T(SStr, "(str.fmt %s)", ints())
	case "wf":
		need(1)
		return T(SBool, "(str.wf %s)", a[0].S)
	case "ext":
		need(5)
		return T(SStr, "(str5 (a.num %s) (a.num %s) (a.num %s) (a.num %s) (a.num %s))", a[0].S, a[1].S, a[2].S, a[3].S, a[4].S)
	case "sid":
		need(4)
		return T(SStr, "(str4 (a.num %s) (a.num %s) (a.num %s) (a.num %s))", a[0].S, a[1].S, a[2].S, a[3].S)
	case "hid":
		need(3)
		return T(SStr, "(str3 (a.num %s) (a.num %s) (a.num %s))", a[0].S, a[1].S, a[2].S)
	case "vid":
		need(2)
		return T(SStr, "(str2 (a.num %s) (a.num %s))", a[0].S, a[1].S)
	case "str1", "str2", "str3", "str4", "str5", "str6":
		return T(SStr, "(%s %s)", e.Fn, joinTerms(a))
	case "join": // a + "/" + b
		need(2)
		return T(SStr, "(strjoin %s %s)", a[0].S, a[1].S)
	case "isext": // canonical, numeric 5-field id
		need(1)
		s := a[0].S
		return T(SBool, "(and (= (nf %s) 5) (a.isnum (f0 %s)) (a.isnum (f1 %s)) (a.isnum (f2 %s)) (a.isnum (f3 %s)) (a.isnum (f4 %s)))", s, s, s, s, s, s)
	case "has":
		need(2)
		if a[0].Sort.Kind != KMap {
			specFail("has on %s", a[0].Sort)
		}
		return T(SBool, "(select (map.dom %s) %s)", a[0].S, a[1].S)
	case "mget":
		need(2)
		r := T(a[0].Sort.Elem, "(select (map.val %s) %s)", a[0].S, a[1].S)
		if a[0].Ty != nil {
			if mt, ok := a[0].Ty.Underlying().(*types.Map); ok {
				r.Ty = mt.Elem()
			}
		}
		return r
	case "member": // member(e, seq): membership as an uninterpreted predicate with trigger-friendly axioms
		need(2)
		if a[1].Sort.Kind != KSeq {
			specFail("member on %s", a[1].Sort)
		}
		var nm string
		switch a[1].Sort.Elem.Kind {
		case KInt:
			nm = "seq.in.Int"
		case KStr:
			nm = "seq.in.Str"
		case KAny:
			nm = "seq.in.Any"
		default:
			specFail("member: element sort %s not supported", a[1].Sort.Elem)
		}
		return T(SBool, "(%s %s %s)", nm, a[1].S, a[0].S)
	case "in": // in(e, seq)
		need(2)
		if a[1].Sort.Kind != KSeq {
			specFail("in on %s", a[1].Sort)
		}
		return T(SBool, "(exists ((q!in Int)) (and (<= 0 q!in) (< q!in (seq.len %s)) (= (select (seq.el %s) q!in) %s)))", a[1].S, a[1].S, a[0].S)
	case "nodup":
		need(1)
		if a[0].Sort.Kind != KSeq {
			specFail("nodup on %s", a[0].Sort)
		}
		s := a[0].S
		return T(SBool, "(forall ((q!i Int) (q!j Int)) (=> (and (<= 0 q!i) (< q!i q!j) (< q!j (seq.len %s))) (not (= (select (seq.el %s) q!i) (select (seq.el %s) q!j)))))", s, s, s)
	}
	if strings.HasPrefix(e.Fn, "mk_") && env.Sorts != nil {
		if ss, ok := env.Sorts[strings.TrimPrefix(e.Fn, "mk_")]; ok && ss.Kind == KStruct {
			if len(a) != len(ss.Fields) {
				specFail("%s expects %d fields", e.Fn, len(ss.Fields))
			}
			return T(ss, "(%s %s)", e.Fn, joinTerms(a))
		}
	}
	if env.Ghost != nil {
		if t, ok := env.Ghost(e.Fn, a); ok {
			return t
		}
	}
	if env.Pure != nil {
		if t, ok := env.Pure(e.Fn, a); ok {
			return t
		}
	}
	if fsym, ok := env.Funcs[e.Fn]; ok {
		return T(fsym.Res, "(%s %s)", fsym.Name, joinTerms(a))
	}
	if d, ok := env.Defs[e.Fn]; ok {
		if len(d.Params) != len(a) {
			specFail("%s expects %d arguments", e.Fn, len(d.Params))
		}
		if d.Rec {
			return T(SInt, "(spec.%s %s)", d.Name, joinTerms(a))
		}
		if d.Opaque && !env.Reveal[d.Name] {
			if d.IntResult {
				return T(SInt, "(spec.%s %s)", d.Name, joinTerms(a))
			}
			if d.StrResult {
				return T(SStr, "(spec.%s %s)", d.Name, joinTerms(a))
			}
			if d.StrsResult {
				r := T(SeqOf(SStr), "(spec.%s %s)", d.Name, joinTerms(a))
				r.Ty = types.NewSlice(types.Typ[types.String])
				return r
			}
			return T(SBool, "(spec.%s %s)", d.Name, joinTerms(a))
		}
		c := &Env{Vars: map[string]Term{}, Defs: env.Defs, Pure: env.Pure, Sorts: env.Sorts, Reveal: env.Reveal, Ghost: env.Ghost}
		for i, p := range d.Params {
			c.Vars[p] = a[i]
		}
		return toSMT(d.Body, c)
	}
	specFail("unknown spec function %s", e.Fn)
	return Term{}
}

func joinTerms(a []Term) string {
	var s []string
	for _, t := range a {
		s = append(s, t.S)
	}
	return strings.Join(s, " ")
}
