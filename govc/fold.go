package main

import (
	"fmt"
	"math/big"
	"strings"
)

// Partial evaluation of a split instance: the split parameters are numerals,
// so most of the integer structure of the script (zoom differences, powers of
// two, branch conditions on zooms) folds to constants.  The folder only
// rewrites closed integer/boolean sub-terms by their value and applies the
// unit laws of and/or/not/=>/ite; everything else is passed through verbatim.

type sx struct {
	atom string
	list []*sx
}

func parseSx(s string) *sx {
	pos := 0
	var parse func() *sx
	skip := func() {
		for pos < len(s) && (s[pos] == ' ' || s[pos] == '\n' || s[pos] == '\t') {
			pos++
		}
	}
	parse = func() *sx {
		skip()
		if pos >= len(s) {
			return nil
		}
		if s[pos] == '(' {
			pos++
			n := &sx{list: []*sx{}}
			for {
				skip()
				if pos >= len(s) {
					return n
				}
				if s[pos] == ')' {
					pos++
					return n
				}
				n.list = append(n.list, parse())
			}
		}
		start := pos
		if s[pos] == '"' {
			pos++
			for pos < len(s) && s[pos] != '"' {
				pos++
			}
			pos++
			return &sx{atom: s[start:pos]}
		}
		if s[pos] == '|' {
			pos++
			for pos < len(s) && s[pos] != '|' {
				pos++
			}
			pos++
			return &sx{atom: s[start:pos]}
		}
		for pos < len(s) && s[pos] != ' ' && s[pos] != '(' && s[pos] != ')' && s[pos] != '\n' && s[pos] != '\t' {
			pos++
		}
		return &sx{atom: s[start:pos]}
	}
	return parse()
}

func (x *sx) write(sb *strings.Builder) {
	if x.list == nil {
		sb.WriteString(x.atom)
		return
	}
	sb.WriteByte('(')
	for i, c := range x.list {
		if i > 0 {
			sb.WriteByte(' ')
		}
		c.write(sb)
	}
	sb.WriteByte(')')
}

func (x *sx) String() string {
	var sb strings.Builder
	x.write(&sb)
	return sb.String()
}

func (x *sx) isAtom(a string) bool { return x.list == nil && x.atom == a }

// numeral value of a folded term: 12 or (- 12)
func (x *sx) num() (*big.Int, bool) {
	if x.list == nil {
		if x.atom == "" || x.atom[0] < '0' || x.atom[0] > '9' {
			return nil, false
		}
		for i := 0; i < len(x.atom); i++ {
			if x.atom[i] < '0' || x.atom[i] > '9' {
				return nil, false
			}
		}
		n, ok := new(big.Int).SetString(x.atom, 10)
		return n, ok
	}
	if len(x.list) == 2 && x.list[0].isAtom("-") && x.list[1].list == nil {
		if n, ok := x.list[1].num(); ok {
			return new(big.Int).Neg(n), true
		}
	}
	return nil, false
}

func numSx(n *big.Int) *sx {
	if n.Sign() < 0 {
		return &sx{list: []*sx{{atom: "-"}, {atom: new(big.Int).Neg(n).String()}}}
	}
	return &sx{atom: n.String()}
}

func boolSx(b bool) *sx {
	if b {
		return &sx{atom: "true"}
	}
	return &sx{atom: "false"}
}

var (
	bigMin64 = new(big.Int).Neg(new(big.Int).Lsh(big.NewInt(1), 63))
	bigMax64 = new(big.Int).Sub(new(big.Int).Lsh(big.NewInt(1), 63), big.NewInt(1))
)

func floorDiv(a, b *big.Int) *big.Int {
	// b > 0
	q, m := new(big.Int).DivMod(a, b, new(big.Int)) // Euclidean; for b>0 equals floor
	_ = m
	return q
}

func truncDiv(a, b *big.Int) *big.Int { return new(big.Int).Quo(a, b) }

func pow2Big(k *big.Int) *big.Int {
	if !k.IsInt64() || k.Int64() < 0 || k.Int64() > maxPow {
		return big.NewInt(0)
	}
	return new(big.Int).Lsh(big.NewInt(1), uint(k.Int64()))
}

type folder struct {
	env     map[string]*sx      // names defined as constants or constructor terms
	structs map[string][]string // struct datatype name -> field names in order
	facts   map[string]bool     // small atomic formulas asserted unconditionally
	rank    map[string]int      // allocation order of object references
}

var strCtorArity = map[string]int{"str1": 1, "str2": 2, "str3": 3, "str4": 4, "str5": 5, "str6": 6}

func (x *sx) headAtom() string {
	if x.list == nil || len(x.list) == 0 || x.list[0].list != nil {
		return ""
	}
	return x.list[0].atom
}

// isCtorTerm: a term built from a string/atom/struct/sequence constructor (worth inlining).
func isCtorTerm(x *sx) bool {
	h := x.headAtom()
	if _, ok := strCtorArity[h]; ok {
		return true
	}
	if h == "a.num" || strings.HasPrefix(h, "mk_") || h == "store" {
		return true
	}
	if x.list != nil && len(x.list) > 0 && x.list[0].list != nil && len(x.list[0].list) == 3 && x.list[0].list[0].isAtom("as") && (x.list[0].list[1].isAtom("mkseq") || x.list[0].list[1].isAtom("const")) {
		return true
	}
	if x.list == nil && (x.atom == "a.none" || x.atom == "a.empty" || x.atom == "str.empty" || x.atom == "notail") {
		return true
	}
	return false
}

func realLit(n *big.Int) *sx {
	if n.Sign() < 0 {
		return &sx{list: []*sx{{atom: "-"}, {atom: new(big.Int).Neg(n).String() + ".0"}}}
	}
	return &sx{atom: n.String() + ".0"}
}

// integer-valued real literal: 12.0 or (- 12.0)
func (x *sx) realInt() (*big.Int, bool) {
	if x.list == nil {
		if strings.HasSuffix(x.atom, ".0") {
			n, ok := new(big.Int).SetString(strings.TrimSuffix(x.atom, ".0"), 10)
			if ok && n.Sign() >= 0 {
				return n, true
			}
		}
		return nil, false
	}
	if len(x.list) == 2 && x.list[0].isAtom("-") {
		if n, ok := x.list[1].realInt(); ok && x.list[1].list == nil {
			return new(big.Int).Neg(n), true
		}
	}
	return nil, false
}

var big2p53 = new(big.Int).Lsh(big.NewInt(1), 53)

func (f *folder) fold(x *sx) *sx {
	if x == nil {
		return x
	}
	if x.list == nil {
		if v, ok := f.env[x.atom]; ok {
			return v
		}
		return x
	}
	if len(x.list) == 0 {
		return x
	}
	head := x.list[0]
	if head.list != nil {
		// ((_ is a.num) t), ((as const ...) v): fold arguments only
		out := &sx{list: make([]*sx, len(x.list))}
		out.list[0] = head
		for i := 1; i < len(x.list); i++ {
			out.list[i] = f.fold(x.list[i])
		}
		return out
	}
	switch head.atom {
	case "forall", "exists":
		if len(x.list) == 3 {
			return &sx{list: []*sx{head, x.list[1], f.fold(x.list[2])}}
		}
		return x
	case "!":
		out := &sx{list: []*sx{head, f.fold(x.list[1])}}
		for i := 2; i < len(x.list); i++ {
			if x.list[i].list == nil && strings.HasPrefix(x.list[i].atom, ":") {
				out.list = append(out.list, x.list[i])
				if i+1 < len(x.list) {
					i++
					out.list = append(out.list, f.fold(x.list[i]))
				}
				continue
			}
			out.list = append(out.list, x.list[i])
		}
		return out
	case "let", "_", "as":
		return x
	}
	args := make([]*sx, len(x.list)-1)
	for i := range args {
		args[i] = f.fold(x.list[i+1])
	}
	mk := func() *sx {
		out := &sx{list: make([]*sx, 0, len(args)+1)}
		out.list = append(out.list, head)
		out.list = append(out.list, args...)
		return out
	}
	nums := make([]*big.Int, len(args))
	allNum := true
	for i, a := range args {
		n, ok := a.num()
		if !ok {
			allNum = false
		}
		nums[i] = n
	}
	isTrue := func(a *sx) bool { return a.isAtom("true") }
	isFalse := func(a *sx) bool { return a.isAtom("false") }
	switch head.atom {
	case "+":
		if allNum {
			r := new(big.Int)
			for _, n := range nums {
				r.Add(r, n)
			}
			return numSx(r)
		}
		if len(args) == 2 {
			if nums[1] != nil && nums[1].Sign() == 0 {
				return args[0]
			}
			if nums[0] != nil && nums[0].Sign() == 0 {
				return args[1]
			}
			// (+ (+ a n) m) -> (+ a (n+m))
			if nums[1] != nil && args[0].headAtom() == "+" && len(args[0].list) == 3 {
				if n0, ok := args[0].list[2].num(); ok {
					sum := new(big.Int).Add(n0, nums[1])
					if sum.Sign() == 0 {
						return args[0].list[1]
					}
					return &sx{list: []*sx{head, args[0].list[1], numSx(sum)}}
				}
			}
		}
	case "-":
		if allNum {
			if len(nums) == 1 {
				return numSx(new(big.Int).Neg(nums[0]))
			}
			r := new(big.Int).Set(nums[0])
			for _, n := range nums[1:] {
				r.Sub(r, n)
			}
			return numSx(r)
		}
		if len(args) == 2 && nums[1] != nil {
			// (- a n) -> (+ a (- n)): one normal form for offsets
			if nums[1].Sign() == 0 {
				return args[0]
			}
			return f.fold(&sx{list: []*sx{{atom: "+"}, args[0], numSx(new(big.Int).Neg(nums[1]))}})
		}
	case "*":
		if allNum {
			r := big.NewInt(1)
			for _, n := range nums {
				r.Mul(r, n)
			}
			return numSx(r)
		}
		for _, n := range nums {
			if n != nil && n.Sign() == 0 {
				return numSx(big.NewInt(0))
			}
		}
	case "div", "fdiv":
		if allNum && len(nums) == 2 && nums[1].Sign() > 0 {
			return numSx(floorDiv(nums[0], nums[1]))
		}
	case "mod", "fmod":
		if allNum && len(nums) == 2 && nums[1].Sign() > 0 {
			return numSx(new(big.Int).Mod(nums[0], nums[1]))
		}
	case "tdiv":
		if allNum && len(nums) == 2 && nums[1].Sign() != 0 {
			return numSx(truncDiv(nums[0], nums[1]))
		}
	case "tmod":
		if allNum && len(nums) == 2 && nums[1].Sign() != 0 {
			return numSx(new(big.Int).Rem(nums[0], nums[1]))
		}
	case "pow2":
		if allNum && len(nums) == 1 {
			return numSx(pow2Big(nums[0]))
		}
	case "ashift":
		if len(nums) == 2 && nums[1] != nil {
			s := nums[1]
			if allNum {
				if s.Sign() >= 0 {
					return numSx(new(big.Int).Mul(nums[0], pow2Big(s)))
				}
				p := pow2Big(new(big.Int).Neg(s))
				if p.Sign() > 0 {
					return numSx(floorDiv(nums[0], p))
				}
			} else {
				// known shift, symbolic index: make the scaling explicit (linear)
				if s.Sign() >= 0 {
					return &sx{list: []*sx{{atom: "*"}, args[0], numSx(pow2Big(s))}}
				}
				p := pow2Big(new(big.Int).Neg(s))
				if p.Sign() > 0 {
					return &sx{list: []*sx{{atom: "div"}, args[0], numSx(p)}}
				}
			}
		}
	case "anc":
		if len(nums) == 2 && nums[1] != nil {
			p := pow2Big(nums[1])
			if p.Sign() > 0 {
				if allNum {
					return numSx(floorDiv(nums[0], p))
				}
				return &sx{list: []*sx{{atom: "div"}, args[0], numSx(p)}}
			}
		}
	case "imin":
		if allNum && len(nums) == 2 {
			if nums[0].Cmp(nums[1]) <= 0 {
				return numSx(nums[0])
			}
			return numSx(nums[1])
		}
	case "imax":
		if allNum && len(nums) == 2 {
			if nums[0].Cmp(nums[1]) >= 0 {
				return numSx(nums[0])
			}
			return numSx(nums[1])
		}
	case "iabs":
		if allNum && len(nums) == 1 {
			return numSx(new(big.Int).Abs(nums[0]))
		}
	case "in64":
		if allNum && len(nums) == 1 {
			return boolSx(nums[0].Cmp(bigMin64) >= 0 && nums[0].Cmp(bigMax64) <= 0)
		}
	case "<", "<=", ">", ">=":
		if allNum && len(nums) == 2 {
			c := nums[0].Cmp(nums[1])
			switch head.atom {
			case "<":
				return boolSx(c < 0)
			case "<=":
				return boolSx(c <= 0)
			case ">":
				return boolSx(c > 0)
			default:
				return boolSx(c >= 0)
			}
		}
	case "=":
		if len(args) == 2 {
			if allNum {
				return boolSx(nums[0].Cmp(nums[1]) == 0)
			}
			if args[0].String() == args[1].String() {
				return boolSx(true)
			}
			if r, ok := ctorEq(args[0], args[1]); ok {
				return f.fold(r)
			}
			if (isTrue(args[0]) || isFalse(args[0])) && (isTrue(args[1]) || isFalse(args[1])) {
				return boolSx(args[0].atom == args[1].atom)
			}
			if isTrue(args[0]) {
				return args[1]
			}
			if isTrue(args[1]) {
				return args[0]
			}
			if isFalse(args[0]) {
				return f.fold(&sx{list: []*sx{{atom: "not"}, args[1]}})
			}
			if isFalse(args[1]) {
				return f.fold(&sx{list: []*sx{{atom: "not"}, args[0]}})
			}
		}
	case "not":
		if len(args) == 1 {
			if isTrue(args[0]) {
				return boolSx(false)
			}
			if isFalse(args[0]) {
				return boolSx(true)
			}
			if args[0].list != nil && len(args[0].list) == 2 && args[0].list[0].isAtom("not") {
				return args[0].list[1]
			}
		}
	case "and":
		var keep []*sx
		for _, a := range args {
			if isFalse(a) {
				return boolSx(false)
			}
			if !isTrue(a) {
				keep = append(keep, a)
			}
		}
		if len(keep) == 0 {
			return boolSx(true)
		}
		if len(keep) == 1 {
			return keep[0]
		}
		args = keep
	case "or":
		var keep []*sx
		for _, a := range args {
			if isTrue(a) {
				return boolSx(true)
			}
			if !isFalse(a) {
				keep = append(keep, a)
			}
		}
		if len(keep) == 0 {
			return boolSx(false)
		}
		if len(keep) == 1 {
			return keep[0]
		}
		args = keep
	case "=>":
		if len(args) == 2 {
			if isFalse(args[0]) || isTrue(args[1]) {
				return boolSx(true)
			}
			if isTrue(args[0]) {
				return args[1]
			}
			if isFalse(args[1]) {
				return f.fold(&sx{list: []*sx{{atom: "not"}, args[0]}})
			}
		}
	case "ite":
		if len(args) == 3 {
			if isTrue(args[0]) {
				return args[1]
			}
			if isFalse(args[0]) {
				return args[2]
			}
			if args[1].String() == args[2].String() {
				return args[1]
			}
		}
	case "distinct":
		if allNum && len(nums) == 2 {
			return boolSx(nums[0].Cmp(nums[1]) != 0)
		}
	// ---- strings and atoms
	case "fld":
		if len(args) == 2 && nums[1] != nil && nums[1].IsInt64() {
			k := nums[1].Int64()
			if k >= 0 && k <= 5 {
				return f.fold(&sx{list: []*sx{{atom: fmt.Sprintf("f%d", k)}, args[0]}})
			}
			return &sx{atom: "a.none"}
		}
	case "f0", "f1", "f2", "f3", "f4", "f5":
		if len(args) == 1 {
			if n, ok := strCtorArity[args[0].headAtom()]; ok {
				k := int(head.atom[1] - '0')
				if k < n {
					return args[0].list[1+k]
				}
				return &sx{atom: "a.none"}
			}
			if args[0].isAtom("str.empty") {
				if head.atom == "f0" {
					return &sx{atom: "a.empty"}
				}
				return &sx{atom: "a.none"}
			}
		}
	case "nf":
		if len(args) == 1 {
			if n, ok := strCtorArity[args[0].headAtom()]; ok {
				return numSx(big.NewInt(int64(n)))
			}
			if args[0].isAtom("str.empty") {
				return numSx(big.NewInt(1))
			}
		}
	case "rest":
		if len(args) == 1 {
			if _, ok := strCtorArity[args[0].headAtom()]; ok || args[0].isAtom("str.empty") {
				return &sx{atom: "notail"}
			}
		}
	case "str.fmt":
		if len(args) == 1 {
			return &sx{list: []*sx{{atom: "str1"}, {list: []*sx{{atom: "a.num"}, args[0]}}}}
		}
	case "a.value", "a.val":
		if len(args) == 1 && args[0].headAtom() == "a.num" {
			return args[0].list[1]
		}
	case "a.isnum":
		if len(args) == 1 {
			if args[0].headAtom() == "a.num" {
				return f.fold(&sx{list: []*sx{{atom: "in64"}, args[0].list[1]}})
			}
			if args[0].isAtom("a.none") || args[0].isAtom("a.empty") {
				return boolSx(false)
			}
		}
	case "a.ok":
		if len(args) == 1 {
			if args[0].headAtom() == "a.num" || args[0].isAtom("a.empty") {
				return boolSx(true)
			}
			if args[0].isAtom("a.none") {
				return boolSx(false)
			}
		}
	case "str.isnum":
		if len(args) == 1 {
			if n, ok := strCtorArity[args[0].headAtom()]; ok {
				if n != 1 {
					return boolSx(false)
				}
				return f.fold(&sx{list: []*sx{{atom: "a.isnum"}, args[0].list[1]}})
			}
		}
	case "str.val":
		if len(args) == 1 {
			if n, ok := strCtorArity[args[0].headAtom()]; ok && n >= 1 {
				return f.fold(&sx{list: []*sx{{atom: "a.value"}, args[0].list[1]}})
			}
		}
	case "str.wf":
		if len(args) == 1 {
			if _, ok := strCtorArity[args[0].headAtom()]; ok {
				var conj []*sx
				conj = append(conj, &sx{atom: "and"})
				for _, a := range args[0].list[1:] {
					conj = append(conj, &sx{list: []*sx{{atom: "a.ok"}, a}})
				}
				return f.fold(&sx{list: conj})
			}
		}
	case "strjoin":
		if len(args) == 2 {
			n1, ok1 := strCtorArity[args[0].headAtom()]
			n2, ok2 := strCtorArity[args[1].headAtom()]
			if ok1 && ok2 && n1+n2 <= 6 {
				out := &sx{list: []*sx{{atom: fmt.Sprintf("str%d", n1+n2)}}}
				out.list = append(out.list, args[0].list[1:]...)
				out.list = append(out.list, args[1].list[1:]...)
				return out
			}
		}
	case "strcat":
		if len(args) == 2 {
			n1, ok1 := strCtorArity[args[0].headAtom()]
			n2, ok2 := strCtorArity[args[1].headAtom()]
			if ok1 && ok2 && n1+n2-1 <= 6 {
				last := args[0].list[n1]
				first := args[1].list[1]
				var mid *sx
				if last.isAtom("a.empty") {
					mid = first
				} else if first.isAtom("a.empty") {
					mid = last
				}
				if mid != nil {
					out := &sx{list: []*sx{{atom: fmt.Sprintf("str%d", n1+n2-1)}}}
					out.list = append(out.list, args[0].list[1:n1]...)
					out.list = append(out.list, mid)
					out.list = append(out.list, args[1].list[2:]...)
					return out
				}
			}
		}
	// ---- arrays, sequences, structs
	case "select":
		if len(args) == 2 {
			a := args[0]
			for a.headAtom() == "store" && len(a.list) == 4 {
				si := a.list[2]
				if si.String() == args[1].String() {
					return a.list[3]
				}
				n1, ok1 := si.num()
				n2, ok2 := args[1].num()
				if ok1 && ok2 && n1.Cmp(n2) != 0 {
					a = a.list[1]
					continue
				}
				if f.rank != nil && si.list == nil && args[1].list == nil {
					r1, k1 := f.rank[si.atom]
					r2, k2 := f.rank[args[1].atom]
					if k1 && k2 && r1 != r2 {
						a = a.list[1]
						continue
					}
				}
				break
			}
			if a != args[0] {
				return &sx{list: []*sx{head, a, args[1]}}
			}
		}
	case "seq.len", "seq.el":
		if len(args) == 1 && args[0].list != nil && len(args[0].list) == 3 && args[0].list[0].list != nil && len(args[0].list[0].list) == 3 && args[0].list[0].list[1].isAtom("mkseq") {
			if head.atom == "seq.len" {
				return args[0].list[1]
			}
			return args[0].list[2]
		}
	// ---- reals that are integers
	case "i2f":
		if allNum && len(nums) == 1 && new(big.Int).Abs(nums[0]).Cmp(big2p53) <= 0 {
			return realLit(nums[0])
		}
	case "to_real":
		if allNum && len(nums) == 1 {
			return realLit(nums[0])
		}
	case "to_int", "trunc", "floor", "ceil":
		if len(args) == 1 {
			if n, ok := args[0].realInt(); ok {
				return numSx(n)
			}
			if args[0].headAtom() == "to_real" && len(args[0].list) == 2 {
				return args[0].list[1]
			}
			if args[0].headAtom() == "ite" && len(args[0].list) == 4 {
				it := args[0]
				return f.fold(&sx{list: []*sx{{atom: "ite"}, it.list[1], {list: []*sx{head, it.list[2]}}, {list: []*sx{head, it.list[3]}}}})
			}
		}
	case "f.mod":
		// Mod of a converted integer by an integer-valued constant: stay in integer arithmetic
		if len(args) == 2 && args[0].headAtom() == "i2f" && len(args[0].list) == 2 {
			if n, ok := args[1].realInt(); ok && n.Sign() > 0 && n.Cmp(big2p53) < 0 {
				sarg := args[0].list[1]
				return &sx{list: []*sx{{atom: "ite"},
					{list: []*sx{{atom: "<"}, {list: []*sx{{atom: "iabs"}, sarg}}, numSx(big2p53)}},
					{list: []*sx{{atom: "to_real"}, {list: []*sx{{atom: "tmod"}, sarg, numSx(n)}}}},
					{list: []*sx{{atom: "u.mod"}, args[0], args[1]}}}}
			}
		}
	case "rabs":
		if len(args) == 1 {
			if n, ok := args[0].realInt(); ok {
				return realLit(new(big.Int).Abs(n))
			}
		}
	case "f.pow":
		if len(args) == 2 {
			b, ok1 := args[0].realInt()
			e, ok2 := args[1].realInt()
			if ok1 && ok2 && b.Cmp(big.NewInt(2)) == 0 && e.IsInt64() && e.Int64() >= 0 && e.Int64() <= maxPow {
				return realLit(pow2Big(e))
			}
		}
	case "rpow2":
		if allNum && len(nums) == 1 && nums[0].IsInt64() && nums[0].Int64() >= 0 && nums[0].Int64() <= maxPow {
			return realLit(pow2Big(nums[0]))
		}
	case "is_int":
		if len(args) == 1 {
			if _, ok := args[0].realInt(); ok {
				return boolSx(true)
			}
		}
	}
	// facts asserted unconditionally earlier in the script
	if f.facts != nil && len(args) <= 2 {
		small := true
		for _, a := range args {
			if a.list != nil && len(a.list) > 3 {
				small = false
			}
		}
		if small {
			switch head.atom {
			case "in64", "<=", "<", ">=", ">", "=", "a.isnum", "str.wf", "a.ok":
				if f.facts[mk().String()] {
					return boolSx(true)
				}
			}
		}
	}
	// struct projections: (T.f (mk_T a b ...))
	if i := strings.Index(head.atom, "."); i > 0 && len(args) == 1 && f.structs != nil {
		sname := head.atom[:i]
		if fields, ok := f.structs[sname]; ok && args[0].headAtom() == "mk_"+sname {
			for k, fn := range fields {
				if fn == head.atom[i+1:] && 1+k < len(args[0].list) {
					return args[0].list[1+k]
				}
			}
		}
	}
	return mk()
}

func (f *folder) recordFacts(b *sx) {
	if f.facts == nil {
		f.facts = map[string]bool{}
	}
	if b.headAtom() == "and" {
		for _, c := range b.list[1:] {
			f.recordFacts(c)
		}
		return
	}
	switch b.headAtom() {
	case "in64", "<=", "<", ">=", ">", "=", "a.isnum", "str.wf", "a.ok":
		if s := b.String(); len(s) < 200 {
			f.facts[s] = true
		}
	}
	// (<= ref top!0): a reference that existed at entry (rank 0: not known distinct from other such references)
	if b.headAtom() == "<=" && len(b.list) == 3 && b.list[1].list == nil && b.list[2].isAtom("top!0") {
		if f.rank == nil {
			f.rank = map[string]int{"top!0": 0}
		}
		if _, have := f.rank[b.list[1].atom]; !have {
			if _, isNum := b.list[1].num(); !isNum {
				f.rank[b.list[1].atom] = 0
			}
		}
	}
	// (> newref oldref): references are allocated in strictly increasing order
	if b.headAtom() == ">" && len(b.list) == 3 && b.list[1].list == nil && b.list[2].list == nil {
		if f.rank == nil {
			f.rank = map[string]int{"top!0": 0}
		}
		if r, ok := f.rank[b.list[2].atom]; ok {
			if _, have := f.rank[b.list[1].atom]; !have {
				f.rank[b.list[1].atom] = r + 1
			}
		}
	}
}

// ctorEq decides or decomposes equality between constructor terms.
func ctorEq(a, b *sx) (*sx, bool) {
	ha, hb := a.headAtom(), b.headAtom()
	na, oka := strCtorArity[ha]
	nb, okb := strCtorArity[hb]
	if oka && okb {
		if na != nb {
			return boolSx(false), true
		}
		conj := []*sx{{atom: "and"}}
		for i := 1; i <= na; i++ {
			conj = append(conj, &sx{list: []*sx{{atom: "="}, a.list[i], b.list[i]}})
		}
		return &sx{list: conj}, true
	}
	if ha == "a.num" && hb == "a.num" {
		return &sx{list: []*sx{{atom: "="}, a.list[1], b.list[1]}}, true
	}
	isConstAtom := func(x *sx) bool { return x.isAtom("a.none") || x.isAtom("a.empty") }
	if (ha == "a.num" && isConstAtom(b)) || (hb == "a.num" && isConstAtom(a)) {
		return boolSx(false), true
	}
	if isConstAtom(a) && isConstAtom(b) {
		return boolSx(a.atom == b.atom), true
	}
	return nil, false
}

// foldLine partially evaluates one script line; define-funs whose body
// becomes a constant are recorded in the environment.
func (f *folder) foldLine(line string, px *sx) string {
	if px == nil {
		return line
	}
	// shallow copy: folding never mutates shared sub-trees, but this level is edited
	x := &sx{list: append([]*sx{}, px.list...)}
	if len(x.list) == 0 || x.list[0].list != nil {
		return line
	}
	switch x.list[0].atom {
	case "define-fun":
		if len(x.list) == 5 && len(x.list[2].list) == 0 {
			body := f.fold(x.list[4])
			if _, ok := body.num(); ok || body.isAtom("true") || body.isAtom("false") {
				f.env[x.list[1].atom] = body
			} else if _, ok := body.realInt(); ok {
				f.env[x.list[1].atom] = body
			} else if (body.headAtom() == "i2f" || body.headAtom() == "to_real") && len(body.list) == 2 && body.list[1].list == nil {
				f.env[x.list[1].atom] = body
			} else if isCtorTerm(body) && len(body.String()) < 4000 {
				f.env[x.list[1].atom] = body
			} else if body.list == nil && body.atom != "" {
				f.env[x.list[1].atom] = body // alias
			}
			x.list[4] = body
			return x.String()
		}
		return line
	case "assert":
		if len(x.list) == 2 {
			b := f.fold(x.list[1])
			if b.isAtom("true") {
				return ""
			}
			f.recordFacts(b)
			// an unconditional definition of a declared constant by a constructor term
			if b.headAtom() == "=" && len(b.list) == 3 && b.list[1].list == nil && isCtorTerm(b.list[2]) {
				if _, have := f.env[b.list[1].atom]; !have && len(b.list[2].String()) < 2000 {
					f.env[b.list[1].atom] = b.list[2]
				}
			}
			x.list[1] = b
			return x.String()
		}
	}
	return line
}
