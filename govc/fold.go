package main

import (
	"math/big"
	"strings"
)

// Partial evaluation of a split instance: the split parameters are numerals,
// so most of the integer structure of the script (zoom differences, powers of
// two, branch conditions on zooms) folds to constants.  The folder only
// rewrites closed integer/boolean sub-terms by their value and applies the
// unit laws of and/or/not/=>/ite; everything else is passed through verbatim.

type sx struct {
	atom string
	list []*sx
}

func parseSx(s string) *sx {
	pos := 0
	var parse func() *sx
	skip := func() {
		for pos < len(s) && (s[pos] == ' ' || s[pos] == '\n' || s[pos] == '\t') {
			pos++
		}
	}
	parse = func() *sx {
		skip()
		if pos >= len(s) {
			return nil
		}
		if s[pos] == '(' {
			pos++
			n := &sx{list: []*sx{}}
			for {
				skip()
				if pos >= len(s) {
					return n
				}
				if s[pos] == ')' {
					pos++
					return n
				}
				n.list = append(n.list, parse())
			}
		}
		start := pos
		if s[pos] == '"' {
			pos++
			for pos < len(s) && s[pos] != '"' {
				pos++
			}
			pos++
			return &sx{atom: s[start:pos]}
		}
		if s[pos] == '|' {
			pos++
			for pos < len(s) && s[pos] != '|' {
				pos++
			}
			pos++
			return &sx{atom: s[start:pos]}
		}
		for pos < len(s) && s[pos] != ' ' && s[pos] != '(' && s[pos] != ')' && s[pos] != '\n' && s[pos] != '\t' {
			pos++
		}
		return &sx{atom: s[start:pos]}
	}
	return parse()
}

func (x *sx) write(sb *strings.Builder) {
	if x.list == nil {
		sb.WriteString(x.atom)
		return
	}
	sb.WriteByte('(')
	for i, c := range x.list {
		if i > 0 {
			sb.WriteByte(' ')
		}
		c.write(sb)
	}
	sb.WriteByte(')')
}

func (x *sx) String() string {
	var sb strings.Builder
	x.write(&sb)
	return sb.String()
}

func (x *sx) isAtom(a string) bool { return x.list == nil && x.atom == a }

// numeral value of a folded term: 12 or (- 12)
func (x *sx) num() (*big.Int, bool) {
	if x.list == nil {
		if x.atom == "" || x.atom[0] < '0' || x.atom[0] > '9' {
			return nil, false
		}
		for i := 0; i < len(x.atom); i++ {
			if x.atom[i] < '0' || x.atom[i] > '9' {
				return nil, false
			}
		}
		n, ok := new(big.Int).SetString(x.atom, 10)
		return n, ok
	}
	if len(x.list) == 2 && x.list[0].isAtom("-") && x.list[1].list == nil {
		if n, ok := x.list[1].num(); ok {
			return new(big.Int).Neg(n), true
		}
	}
	return nil, false
}

func numSx(n *big.Int) *sx {
	if n.Sign() < 0 {
		return &sx{list: []*sx{{atom: "-"}, {atom: new(big.Int).Neg(n).String()}}}
	}
	return &sx{atom: n.String()}
}

func boolSx(b bool) *sx {
	if b {
		return &sx{atom: "true"}
	}
	return &sx{atom: "false"}
}

var (
	bigMin64 = new(big.Int).Neg(new(big.Int).Lsh(big.NewInt(1), 63))
	bigMax64 = new(big.Int).Sub(new(big.Int).Lsh(big.NewInt(1), 63), big.NewInt(1))
)

func floorDiv(a, b *big.Int) *big.Int {
	// b > 0
	q, m := new(big.Int).DivMod(a, b, new(big.Int)) // Euclidean; for b>0 equals floor
	_ = m
	return q
}

func truncDiv(a, b *big.Int) *big.Int { return new(big.Int).Quo(a, b) }

func pow2Big(k *big.Int) *big.Int {
	if !k.IsInt64() || k.Int64() < 0 || k.Int64() > maxPow {
		return big.NewInt(0)
	}
	return new(big.Int).Lsh(big.NewInt(1), uint(k.Int64()))
}

type folder struct {
	env map[string]*sx // names defined as constants
}

func (f *folder) fold(x *sx) *sx {
	if x == nil {
		return x
	}
	if x.list == nil {
		if v, ok := f.env[x.atom]; ok {
			return v
		}
		return x
	}
	if len(x.list) == 0 {
		return x
	}
	head := x.list[0]
	if head.list != nil {
		// ((_ is a.num) t), ((as const ...) v): fold arguments only
		out := &sx{list: make([]*sx, len(x.list))}
		out.list[0] = head
		for i := 1; i < len(x.list); i++ {
			out.list[i] = f.fold(x.list[i])
		}
		return out
	}
	switch head.atom {
	case "forall", "exists":
		if len(x.list) == 3 {
			return &sx{list: []*sx{head, x.list[1], f.fold(x.list[2])}}
		}
		return x
	case "!":
		out := &sx{list: []*sx{head, f.fold(x.list[1])}}
		for i := 2; i < len(x.list); i++ {
			if x.list[i].list == nil && strings.HasPrefix(x.list[i].atom, ":") {
				out.list = append(out.list, x.list[i])
				if i+1 < len(x.list) {
					i++
					out.list = append(out.list, f.fold(x.list[i]))
				}
				continue
			}
			out.list = append(out.list, x.list[i])
		}
		return out
	case "let", "_", "as":
		return x
	}
	args := make([]*sx, len(x.list)-1)
	for i := range args {
		args[i] = f.fold(x.list[i+1])
	}
	mk := func() *sx {
		out := &sx{list: make([]*sx, 0, len(args)+1)}
		out.list = append(out.list, head)
		out.list = append(out.list, args...)
		return out
	}
	nums := make([]*big.Int, len(args))
	allNum := true
	for i, a := range args {
		n, ok := a.num()
		if !ok {
			allNum = false
		}
		nums[i] = n
	}
	isTrue := func(a *sx) bool { return a.isAtom("true") }
	isFalse := func(a *sx) bool { return a.isAtom("false") }
	switch head.atom {
	case "+":
		if allNum {
			r := new(big.Int)
			for _, n := range nums {
				r.Add(r, n)
			}
			return numSx(r)
		}
	case "-":
		if allNum {
			if len(nums) == 1 {
				return numSx(new(big.Int).Neg(nums[0]))
			}
			r := new(big.Int).Set(nums[0])
			for _, n := range nums[1:] {
				r.Sub(r, n)
			}
			return numSx(r)
		}
	case "*":
		if allNum {
			r := big.NewInt(1)
			for _, n := range nums {
				r.Mul(r, n)
			}
			return numSx(r)
		}
		for _, n := range nums {
			if n != nil && n.Sign() == 0 {
				return numSx(big.NewInt(0))
			}
		}
	case "div", "fdiv":
		if allNum && len(nums) == 2 && nums[1].Sign() > 0 {
			return numSx(floorDiv(nums[0], nums[1]))
		}
	case "mod", "fmod":
		if allNum && len(nums) == 2 && nums[1].Sign() > 0 {
			return numSx(new(big.Int).Mod(nums[0], nums[1]))
		}
	case "tdiv":
		if allNum && len(nums) == 2 && nums[1].Sign() != 0 {
			return numSx(truncDiv(nums[0], nums[1]))
		}
	case "tmod":
		if allNum && len(nums) == 2 && nums[1].Sign() != 0 {
			return numSx(new(big.Int).Rem(nums[0], nums[1]))
		}
	case "pow2":
		if allNum && len(nums) == 1 {
			return numSx(pow2Big(nums[0]))
		}
	case "ashift":
		if len(nums) == 2 && nums[1] != nil {
			s := nums[1]
			if allNum {
				if s.Sign() >= 0 {
					return numSx(new(big.Int).Mul(nums[0], pow2Big(s)))
				}
				p := pow2Big(new(big.Int).Neg(s))
				if p.Sign() > 0 {
					return numSx(floorDiv(nums[0], p))
				}
			} else {
				// known shift, symbolic index: make the scaling explicit (linear)
				if s.Sign() >= 0 {
					return &sx{list: []*sx{{atom: "*"}, args[0], numSx(pow2Big(s))}}
				}
				p := pow2Big(new(big.Int).Neg(s))
				if p.Sign() > 0 {
					return &sx{list: []*sx{{atom: "div"}, args[0], numSx(p)}}
				}
			}
		}
	case "anc":
		if len(nums) == 2 && nums[1] != nil {
			p := pow2Big(nums[1])
			if p.Sign() > 0 {
				if allNum {
					return numSx(floorDiv(nums[0], p))
				}
				return &sx{list: []*sx{{atom: "div"}, args[0], numSx(p)}}
			}
		}
	case "imin":
		if allNum && len(nums) == 2 {
			if nums[0].Cmp(nums[1]) <= 0 {
				return numSx(nums[0])
			}
			return numSx(nums[1])
		}
	case "imax":
		if allNum && len(nums) == 2 {
			if nums[0].Cmp(nums[1]) >= 0 {
				return numSx(nums[0])
			}
			return numSx(nums[1])
		}
	case "iabs":
		if allNum && len(nums) == 1 {
			return numSx(new(big.Int).Abs(nums[0]))
		}
	case "in64":
		if allNum && len(nums) == 1 {
			return boolSx(nums[0].Cmp(bigMin64) >= 0 && nums[0].Cmp(bigMax64) <= 0)
		}
	case "<", "<=", ">", ">=":
		if allNum && len(nums) == 2 {
			c := nums[0].Cmp(nums[1])
			switch head.atom {
			case "<":
				return boolSx(c < 0)
			case "<=":
				return boolSx(c <= 0)
			case ">":
				return boolSx(c > 0)
			default:
				return boolSx(c >= 0)
			}
		}
	case "=":
		if len(args) == 2 {
			if allNum {
				return boolSx(nums[0].Cmp(nums[1]) == 0)
			}
			if (isTrue(args[0]) || isFalse(args[0])) && (isTrue(args[1]) || isFalse(args[1])) {
				return boolSx(args[0].atom == args[1].atom)
			}
			if isTrue(args[0]) {
				return args[1]
			}
			if isTrue(args[1]) {
				return args[0]
			}
			if isFalse(args[0]) {
				return f.fold(&sx{list: []*sx{{atom: "not"}, args[1]}})
			}
			if isFalse(args[1]) {
				return f.fold(&sx{list: []*sx{{atom: "not"}, args[0]}})
			}
		}
	case "not":
		if len(args) == 1 {
			if isTrue(args[0]) {
				return boolSx(false)
			}
			if isFalse(args[0]) {
				return boolSx(true)
			}
			if args[0].list != nil && len(args[0].list) == 2 && args[0].list[0].isAtom("not") {
				return args[0].list[1]
			}
		}
	case "and":
		var keep []*sx
		for _, a := range args {
			if isFalse(a) {
				return boolSx(false)
			}
			if !isTrue(a) {
				keep = append(keep, a)
			}
		}
		if len(keep) == 0 {
			return boolSx(true)
		}
		if len(keep) == 1 {
			return keep[0]
		}
		args = keep
	case "or":
		var keep []*sx
		for _, a := range args {
			if isTrue(a) {
				return boolSx(true)
			}
			if !isFalse(a) {
				keep = append(keep, a)
			}
		}
		if len(keep) == 0 {
			return boolSx(false)
		}
		if len(keep) == 1 {
			return keep[0]
		}
		args = keep
	case "=>":
		if len(args) == 2 {
			if isFalse(args[0]) || isTrue(args[1]) {
				return boolSx(true)
			}
			if isTrue(args[0]) {
				return args[1]
			}
			if isFalse(args[1]) {
				return f.fold(&sx{list: []*sx{{atom: "not"}, args[0]}})
			}
		}
	case "ite":
		if len(args) == 3 {
			if isTrue(args[0]) {
				return args[1]
			}
			if isFalse(args[0]) {
				return args[2]
			}
			if args[1].String() == args[2].String() {
				return args[1]
			}
		}
	}
	return mk()
}

// foldLine partially evaluates one script line; define-funs whose body
// becomes a constant are recorded in the environment.
func (f *folder) foldLine(line string, px *sx) string {
	if px == nil {
		return line
	}
	// shallow copy: folding never mutates shared sub-trees, but this level is edited
	x := &sx{list: append([]*sx{}, px.list...)}
	if len(x.list) == 0 || x.list[0].list != nil {
		return line
	}
	switch x.list[0].atom {
	case "define-fun":
		if len(x.list) == 5 && len(x.list[2].list) == 0 {
			body := f.fold(x.list[4])
			if _, ok := body.num(); ok || body.isAtom("true") || body.isAtom("false") {
				f.env[x.list[1].atom] = body
			}
			x.list[4] = body
			return x.String()
		}
		return line
	case "assert":
		if len(x.list) == 2 {
			b := f.fold(x.list[1])
			if b.isAtom("true") {
				return ""
			}
			x.list[1] = b
			return x.String()
		}
	}
	return line
}
