package main

import (
	"bufio"
	"fmt"
	"os"
	"path/filepath"
	"strconv"
	"strings"
)

// Contracts live in comment-only files zz_verif_contracts.go (build tag
// verif) inside each package of the repository.  Every line of interest
// starts with "//@".  See DESIGN.md section 2.1 for the language.

type Clause struct {
	Text string
	Expr Expr
	File string
	Line int
	Tag  string // optional label
}

type Split struct {
	Var    string
	Lo, Hi int
	HiVar  string // upper bound is an earlier split variable (+ HiOff); Hi is then the absolute maximum
	HiOff  int
}

type Contract struct {
	PkgDir       string // directory relative to repo root ("" for externs)
	Name         string // function key, e.g. VerticalZoom, (*T).M, T.M, Unique[string]
	Extern       bool   // trusted contract for a function outside the repository
	Trusted      bool   // assumed, not proved (listed in evidence)
	Props        []string
	Splits       []Split
	Requires     []Clause
	Ensures      []Clause
	Loops        map[int][]Clause // loop ordinal -> invariants
	Unroll       map[int]int      // loop ordinal -> number of unrollings (complete, with unwinding assertion)
	Assigns      []string         // "recv.f" style frame entries
	Fresh        []string         // result names that are freshly allocated objects
	Pure         bool
	Float        string // "exact" (default) or "ideal"
	Emits        string // name of callback parameter for the emit idiom
	Inline       bool
	LocalEffects bool
	Unfold       []string // opaque definitions whose defining equation is added as a triggered axiom
	Applies      []*ECall // lemma instances assumed at entry
	NoBatch      bool
	Chunk        int                 // maximal number of split instances per solver process (0: default)
	AssumeCall   map[string][]Clause // callee name -> restriction assumed on its results at call sites in this function
	Modifies     []string            // ghost relations the function may change
	ParamNames   []string            // receiver and argument names of an interface method contract
	NoOverflow   bool                // do not generate overflow obligations (documented)
	Local        bool
	LoopFrame    bool
	QuickStride  int
	Tactic       string
	ThoroughOnly bool
	Valid        *Clause                // overflow obligations are proved under this validity condition
	InlineCalls  map[string]map[int]int // callee key -> loop unrollings, for callees translated in place
	Reveal       map[string]bool        // opaque spec definitions expanded in this contract
	Shapes       []Shape                // structured parameters: param = ctor(ghosts...)
	Cases        []*Contract            // additional contract cases proved separately (e.g. for shaped inputs)
	CaseName     string
	File         string
	Line         int
	KnownFinding map[string]string // obligation-name pattern -> finding id
}

// Shape declares that a string parameter has the canonical form ctor(g0, g1, ...)
// with fresh integer ghosts: ext (5 fields), sid (4), hid (3), vid (2).
type Shape struct {
	Param  string
	Ctor   string
	Ghosts []string
}

type LemmaStmt struct {
	Kind string // var, assume, call, assert, let
	// var
	Name string
	Sort string
	// assume/assert
	Clause Clause
	// call
	Results []string
	Callee  string
	Args    []Expr
}

type Lemma struct {
	Float        string // "ideal": the lemma may use contracts proved over ideal reals
	Reveal       map[string]bool
	QuickStride  int
	Tactic       string
	ThoroughOnly bool
	Name         string
	PkgDir       string
	Props        []string
	Splits       []Split
	Stmts        []LemmaStmt
	File         string
	Line         int
}

type ContractSet struct {
	Funcs  map[string]*Contract // key: pkgdir + ":" + name ; externs: full name
	Lemmas []*Lemma
	Defs   map[string]*SpecDef
	Files  []string
	Ghosts map[string][]string // ghost relation name -> argument sort names (result Bool)
}

func (cs *ContractSet) Lookup(pkgDir, name string) *Contract {
	return cs.Funcs[pkgDir+":"+name]
}

func parseSplit(rest string) (Split, error) {
	f := strings.Fields(rest)
	if len(f) != 2 {
		return Split{}, fmt.Errorf("split: want 'var lo..hi'")
	}
	r := strings.Split(f[1], "..")
	if len(r) != 2 {
		return Split{}, fmt.Errorf("split: bad range %q", f[1])
	}
	lo, e1 := strconv.Atoi(r[0])
	hi, e2 := strconv.Atoi(r[1])
	if e1 != nil {
		return Split{}, fmt.Errorf("split: bad range %q", f[1])
	}
	if e2 != nil {
		// lo..var or lo..var-k : dependent upper bound
		hv, off := r[1], 0
		if i := strings.LastIndex(hv, "-"); i > 0 {
			k, err := strconv.Atoi(hv[i+1:])
			if err == nil {
				off = -k
				hv = hv[:i]
			}
		}
		return Split{Var: f[0], Lo: lo, Hi: 1 << 30, HiVar: hv, HiOff: off}, nil
	}
	return Split{Var: f[0], Lo: lo, Hi: hi}, nil
}

func LoadContracts(repo string) (*ContractSet, error) {
	cs := &ContractSet{Funcs: map[string]*Contract{}, Defs: map[string]*SpecDef{}}
	var files []string
	err := filepath.Walk(repo, func(path string, info os.FileInfo, err error) error {
		if err != nil {
			return err
		}
		if info.IsDir() && (info.Name() == ".git" || info.Name() == "examples") {
			return filepath.SkipDir
		}
		if !info.IsDir() && info.Name() == "zz_verif_contracts.go" {
			files = append(files, path)
		}
		return nil
	})
	if err != nil {
		return nil, err
	}
	for _, f := range files {
		rel, _ := filepath.Rel(repo, filepath.Dir(f))
		if rel == "." {
			rel = ""
		}
		if err := cs.parseFile(f, rel); err != nil {
			return nil, err
		}
		cs.Files = append(cs.Files, f)
	}
	return cs, nil
}

func (cs *ContractSet) parseFile(path, pkgDir string) error {
	fh, err := os.Open(path)
	if err != nil {
		return err
	}
	defer fh.Close()
	sc := bufio.NewScanner(fh)
	sc.Buffer(make([]byte, 1<<20), 1<<20)
	type rawLine struct {
		text string
		line int
	}
	var lines []rawLine
	ln := 0
	for sc.Scan() {
		ln++
		t := strings.TrimSpace(sc.Text())
		if strings.HasPrefix(t, "//@+") {
			if len(lines) == 0 {
				return fmt.Errorf("%s:%d: continuation without a clause", path, ln)
			}
			lines[len(lines)-1].text += " " + strings.TrimSpace(t[4:])
			continue
		}
		if !strings.HasPrefix(t, "//@") {
			continue
		}
		t = strings.TrimSpace(t[3:])
		if t == "" || strings.HasPrefix(t, "--") {
			continue
		}
		lines = append(lines, rawLine{t, ln})
	}
	var cur *Contract
	var lem *Lemma
	mkClause := func(text string, line int) (Clause, error) {
		tag := ""
		if strings.HasPrefix(text, "[") {
			if i := strings.Index(text, "]"); i > 0 {
				tag = text[1:i]
				text = strings.TrimSpace(text[i+1:])
			}
		}
		e, err := ParseExpr(text)
		if err != nil {
			return Clause{}, fmt.Errorf("%s:%d: %v", path, line, err)
		}
		return Clause{Text: text, Expr: e, File: path, Line: line, Tag: tag}, nil
	}
	for _, rl := range lines {
		word, rest := rl.text, ""
		if i := strings.IndexAny(rl.text, " \t"); i > 0 {
			word, rest = rl.text[:i], strings.TrimSpace(rl.text[i+1:])
		}
		fail := func(format string, a ...interface{}) error {
			return fmt.Errorf("%s:%d: %s", path, rl.line, fmt.Sprintf(format, a...))
		}
		switch word {
		case "func", "extern":
			lem = nil
			cur = &Contract{PkgDir: pkgDir, Name: rest, Loops: map[int][]Clause{}, Unroll: map[int]int{}, File: path, Line: rl.line, Float: "exact", KnownFinding: map[string]string{}}
			key := pkgDir + ":" + rest
			if word == "extern" {
				cur.Extern = true
				cur.Trusted = true
				cur.PkgDir = ""
				key = ":" + rest
			}
			if _, dup := cs.Funcs[key]; dup {
				return fail("duplicate contract for %s", rest)
			}
			cs.Funcs[key] = cur
		case "case":
			// case <function> <name>: an additional contract case of an already declared function
			lem = nil
			fl := strings.Fields(rest)
			if len(fl) != 2 {
				return fail("case: want 'case <function> <name>'")
			}
			base := cs.Funcs[pkgDir+":"+fl[0]]
			if base == nil {
				return fail("case: no contract for %s yet", fl[0])
			}
			cur = &Contract{PkgDir: pkgDir, Name: fl[0], CaseName: fl[1], Loops: map[int][]Clause{}, Unroll: map[int]int{}, File: path, Line: rl.line, Float: base.Float, KnownFinding: map[string]string{}, Props: nil}
			base.Cases = append(base.Cases, cur)
		case "shape":
			fl := strings.Fields(rest)
			if cur == nil || len(fl) < 3 {
				return fail("shape: want 'shape <param> <ctor> <ghosts...>'")
			}
			want := map[string]int{"ext": 5, "sid": 4, "hid": 3, "vid": 2}[fl[1]]
			if want == 0 || len(fl)-2 != want {
				return fail("shape: constructor %s takes %d ghosts", fl[1], want)
			}
			cur.Shapes = append(cur.Shapes, Shape{Param: fl[0], Ctor: fl[1], Ghosts: fl[2:]})
		case "ghost":
			// ghost name(sort, ...): a mutable ghost relation (abstract state of third-party objects)
			i := strings.Index(rest, "(")
			if i < 0 || !strings.HasSuffix(rest, ")") {
				return fail("ghost: want 'ghost name(sort, ...)'")
			}
			var sorts []string
			for _, p := range strings.Split(rest[i+1:len(rest)-1], ",") {
				sorts = append(sorts, strings.TrimSpace(p))
			}
			if cs.Ghosts == nil {
				cs.Ghosts = map[string][]string{}
			}
			cs.Ghosts[strings.TrimSpace(rest[:i])] = sorts
		case "assumecall":
			// assumecall <callee> <expr over r0..rn>: restriction of the verified domain, assumed (not proved) after
			// every call of <callee> in this function; listed among the assumptions of the evidence
			if cur == nil {
				return fail("assumecall outside a contract")
			}
			fl := strings.SplitN(rest, " ", 2)
			if len(fl) != 2 {
				return fail("assumecall: want 'assumecall <callee> <expr>'")
			}
			e, err := ParseExpr(fl[1])
			if err != nil {
				return fail("%v", err)
			}
			if cur.AssumeCall == nil {
				cur.AssumeCall = map[string][]Clause{}
			}
			cur.AssumeCall[fl[0]] = append(cur.AssumeCall[fl[0]], Clause{Expr: e, Text: fl[1], File: path, Line: rl.line})
		case "nobatch":
			// every obligation is its own query with the full timeout (instances whose batched query is hard)
			if cur == nil {
				return fail("nobatch outside a contract")
			}
			cur.NoBatch = true
		case "unfold":
			// unfold <opaque definition>: its defining equation is available as an axiom triggered by applications of
			// the symbol (unlike reveal, the body is not expanded inside quantified clauses)
			if cur == nil {
				return fail("unfold outside a contract")
			}
			cur.Unfold = append(cur.Unfold, strings.Fields(rest)...)
		case "chunk":
			// chunk N: at most N split instances per solver process (arithmetic-heavy instances are faster alone)
			if cur == nil {
				return fail("chunk outside a contract")
			}
			fmt.Sscanf(rest, "%d", &cur.Chunk)
		case "localeffects":
			// every heap write of the function targets objects it allocates itself (checked by the F obligations)
			if cur == nil {
				return fail("localeffects outside a contract")
			}
			cur.LocalEffects = true
		case "modifies":
			if cur == nil {
				return fail("modifies outside a contract")
			}
			cur.Modifies = append(cur.Modifies, strings.Fields(rest)...)
		case "params":
			// names for the receiver and the arguments of an interface method (extern invoke.* contracts)
			if cur == nil {
				return fail("params outside a contract")
			}
			cur.ParamNames = strings.Fields(rest)
		case "lemma":
			cur = nil
			lem = &Lemma{Name: rest, PkgDir: pkgDir, File: path, Line: rl.line}
			cs.Lemmas = append(cs.Lemmas, lem)
		case "definerec":
			// definerec name(a, b) = expr : a recursive integer spec function (emitted as define-fun-rec)
			eq := strings.Index(rest, "=")
			if eq < 0 {
				return fail("definerec without =")
			}
			head, body := strings.TrimSpace(rest[:eq]), strings.TrimSpace(rest[eq+1:])
			d := &SpecDef{Rec: true}
			i := strings.Index(head, "(")
			if i < 0 {
				return fail("definerec needs parameters")
			}
			d.Name = strings.TrimSpace(head[:i])
			for _, p := range strings.Split(strings.TrimSuffix(strings.TrimSpace(head[i+1:]), ")"), ",") {
				d.Params = append(d.Params, strings.TrimSpace(p))
				d.Sorts = append(d.Sorts, "int")
			}
			e, err := ParseExpr(body)
			if err != nil {
				return fail("%v", err)
			}
			d.Body = e
			cs.Defs[d.Name] = d
		case "reveal":
			if cur != nil {
				if cur.Reveal == nil {
					cur.Reveal = map[string]bool{}
				}
				for _, n := range strings.Fields(rest) {
					cur.Reveal[n] = true
				}
			} else if lem != nil {
				if lem.Reveal == nil {
					lem.Reveal = map[string]bool{}
				}
				for _, n := range strings.Fields(rest) {
					lem.Reveal[n] = true
				}
			}
		case "apply":
			// apply <lemma>(args): ground instances of a separately proved lemma (its non-split variables bound to the
			// argument expressions, its split variables expanded over their ranges) are assumed at function entry
			if cur == nil {
				return fail("apply outside a contract")
			}
			e, err := ParseExpr(rest)
			if err != nil {
				return fail("%v", err)
			}
			call, ok := e.(*ECall)
			if !ok {
				return fail("apply: want 'apply <lemma>(args)'")
			}
			cur.Applies = append(cur.Applies, call)
		case "define", "defineopaque", "defineopaqueint", "defineopaquestr", "defineopaquestrs":
			// define name(a, b:str) = expr
			eq := strings.Index(rest, "=")
			if eq < 0 {
				return fail("define without =")
			}
			head, body := strings.TrimSpace(rest[:eq]), strings.TrimSpace(rest[eq+1:])
			// guard against "==" in body start
			for strings.HasPrefix(body, "=") {
				return fail("define: stray =")
			}
			d := &SpecDef{}
			if i := strings.Index(head, "("); i >= 0 {
				d.Name = strings.TrimSpace(head[:i])
				ps := strings.TrimSuffix(strings.TrimSpace(head[i+1:]), ")")
				if strings.TrimSpace(ps) != "" {
					for _, p := range strings.Split(ps, ",") {
						p = strings.TrimSpace(p)
						srt := "int"
						if j := strings.Index(p, ":"); j >= 0 {
							srt = strings.TrimSpace(p[j+1:])
							p = strings.TrimSpace(p[:j])
						}
						d.Params = append(d.Params, p)
						d.Sorts = append(d.Sorts, srt)
					}
				}
			} else {
				d.Name = head
			}
			e, err := ParseExpr(body)
			if err != nil {
				return fail("%v", err)
			}
			d.Body = e
			d.Opaque = strings.HasPrefix(word, "defineopaque")
			d.IntResult = word == "defineopaqueint"
			d.StrResult = word == "defineopaquestr"
			d.StrsResult = word == "defineopaquestrs"
			cs.Defs[d.Name] = d
		case "props":
			if cur != nil {
				cur.Props = append(cur.Props, strings.Fields(rest)...)
			} else if lem != nil {
				lem.Props = append(lem.Props, strings.Fields(rest)...)
			} else {
				return fail("props outside func/lemma")
			}
		case "split":
			sp, err := parseSplit(rest)
			if err != nil {
				return fail("%v", err)
			}
			if cur != nil {
				cur.Splits = append(cur.Splits, sp)
			} else if lem != nil {
				lem.Splits = append(lem.Splits, sp)
			}
		case "requires", "ensures":
			if cur == nil {
				return fail("%s outside func", word)
			}
			c, err := mkClause(rest, rl.line)
			if err != nil {
				return err
			}
			if word == "requires" {
				cur.Requires = append(cur.Requires, c)
			} else {
				cur.Ensures = append(cur.Ensures, c)
			}
		case "loop":
			if cur == nil {
				return fail("loop outside func")
			}
			f := strings.SplitN(rest, " ", 3)
			if len(f) < 3 {
				return fail("loop: want 'loop <n> invariant|unroll ...'")
			}
			n, err := strconv.Atoi(f[0])
			if err != nil {
				return fail("loop ordinal: %v", err)
			}
			switch f[1] {
			case "invariant":
				c, err := mkClause(strings.TrimSpace(f[2]), rl.line)
				if err != nil {
					return err
				}
				cur.Loops[n] = append(cur.Loops[n], c)
			case "unroll":
				k, err := strconv.Atoi(strings.TrimSpace(f[2]))
				if err != nil {
					return fail("unroll count: %v", err)
				}
				cur.Unroll[n] = k
			default:
				return fail("loop: unknown directive %s", f[1])
			}
		case "assigns":
			cur.Assigns = append(cur.Assigns, strings.Fields(rest)...)
		case "fresh":
			cur.Fresh = append(cur.Fresh, strings.Fields(rest)...)
		case "pure":
			cur.Pure = true
		case "trusted":
			cur.Trusted = true
		case "inline":
			if rest == "" {
				cur.Inline = true
				break
			}
			// inline <callee> [unroll L:N ...]: translate the callee body in place at call sites of this function
			fl := strings.Fields(rest)
			if cur.InlineCalls == nil {
				cur.InlineCalls = map[string]map[int]int{}
			}
			m := map[int]int{}
			for i := 1; i < len(fl); i++ {
				if fl[i] == "unroll" {
					continue
				}
				var l, n int
				if _, err := fmt.Sscanf(fl[i], "%d:%d", &l, &n); err != nil {
					return fail("inline: bad unroll spec %q", fl[i])
				}
				m[l] = n
			}
			cur.InlineCalls[fl[0]] = m
		case "float":
			if lem != nil {
				lem.Float = rest
				break
			}
			cur.Float = rest
		case "emits":
			cur.Emits = rest
		case "loopframe":
			cur.LoopFrame = true
		case "local":
			// a contract case that is proved but not assumed at call sites
			cur.Local = true
		case "nooverflow":
			cur.NoOverflow = true
		case "quickstride":
			// quickstride N: the quick tier checks every N-th split instance (seeded offset); thorough checks all
			n, err := strconv.Atoi(rest)
			if err != nil || n < 1 {
				return fail("quickstride: want a positive integer")
			}
			if cur != nil {
				cur.QuickStride = n
			} else if lem != nil {
				lem.QuickStride = n
			}
		case "tactic":
			if rest != "nlsat" {
				return fail("tactic: only nlsat is known")
			}
			if cur != nil {
				cur.Tactic = rest
			} else if lem != nil {
				lem.Tactic = rest
			}
		case "tier":
			if rest != "thorough" {
				return fail("tier: only 'thorough' is supported")
			}
			if cur != nil {
				cur.ThoroughOnly = true
			} else if lem != nil {
				lem.ThoroughOnly = true
			}
		case "valid":
			c, err := mkClause(rest, rl.line)
			if err != nil {
				return err
			}
			cur.Valid = &c
		case "var":
			if lem == nil {
				return fail("var outside lemma")
			}
			f := strings.Fields(rest)
			srt := "int"
			if len(f) == 2 {
				srt = f[1]
			}
			lem.Stmts = append(lem.Stmts, LemmaStmt{Kind: "var", Name: f[0], Sort: srt})
		case "assume", "assert":
			if lem == nil {
				return fail("%s outside lemma", word)
			}
			c, err := mkClause(rest, rl.line)
			if err != nil {
				return err
			}
			lem.Stmts = append(lem.Stmts, LemmaStmt{Kind: word, Clause: c})
		case "call":
			// call r0, r1 = pkgdir:Func(args)   or   call Func(args)
			if lem == nil {
				return fail("call outside lemma")
			}
			st := LemmaStmt{Kind: "call"}
			rhs := rest
			if i := strings.Index(rest, ":="); i >= 0 {
				for _, r := range strings.Split(rest[:i], ",") {
					st.Results = append(st.Results, strings.TrimSpace(r))
				}
				rhs = strings.TrimSpace(rest[i+2:])
			}
			op := strings.Index(rhs, "(")
			if op < 0 || !strings.HasSuffix(rhs, ")") {
				return fail("call: bad syntax")
			}
			st.Callee = strings.TrimSpace(rhs[:op])
			// parse args by wrapping into a call expression
			e, err := ParseExpr("f(" + rhs[op+1:])
			if err != nil {
				return fail("%v", err)
			}
			st.Args = e.(*ECall).Args
			st.Clause = Clause{Text: rest, File: path, Line: rl.line}
			lem.Stmts = append(lem.Stmts, st)
		case "end":
			cur, lem = nil, nil
		default:
			return fail("unknown directive %q", word)
		}
	}
	return nil
}
