// govc-model: props=C05 dir=detector bound=40000-random-trees-of-1..6-cells-zoom-1..35
// Bounded validation of the ASSUMED contract of the third-party radix tree used by
// detector.CheckSpatialIdsArrayOverlap (see detector/zz_verif_contracts.go):
//   Append(t, {f,x,y}, z) adds the cell (z,f,x,y) to the abstract set stored(t);
//   IsOverlap(t, {f,x,y}, z) <=> some stored cell is an ancestor, a descendant or equal on all three axes.
// This is a test of an assumption, not a proof; it is reported as "bounded" in the evidence.
package detector

import (
	"math/rand"
	"testing"

	"github.com/trajectoryjp/multidimensional-radix-tree/src/tree"
)

type govcCell struct{ z, f, x, y int64 }

func govcAnc(i int64, d int64) int64 { return i >> uint(d) }

func govcCellRel(a, b govcCell) bool {
	m := a.z
	if b.z < m {
		m = b.z
	}
	return govcAnc(a.f, a.z-m) == govcAnc(b.f, b.z-m) && govcAnc(a.x, a.z-m) == govcAnc(b.x, b.z-m) && govcAnc(a.y, a.z-m) == govcAnc(b.y, b.z-m)
}

func TestGovcModelTreeOverlap(t *testing.T) {
	rng := rand.New(rand.NewSource(20260928))
	randCell := func(near *govcCell) govcCell {
		z := int64(1 + rng.Intn(35))
		c := govcCell{z: z, f: rng.Int63n(1 << uint(z)), x: rng.Int63n(1 << uint(z)), y: rng.Int63n(1 << uint(z))}
		if near != nil && rng.Intn(3) > 0 {
			// relatives of an existing cell: ancestors, descendants, siblings
			c = *near
			switch rng.Intn(3) {
			case 0:
				d := int64(rng.Intn(int(c.z)))
				c = govcCell{c.z - d, c.f >> uint(d), c.x >> uint(d), c.y >> uint(d)}
			case 1:
				d := int64(rng.Intn(int(36 - c.z)))
				c = govcCell{c.z + d, c.f<<uint(d) + rng.Int63n(1<<uint(d)), c.x<<uint(d) + rng.Int63n(1<<uint(d)), c.y<<uint(d) + rng.Int63n(1<<uint(d))}
			case 2:
				switch rng.Intn(3) {
				case 0:
					c.f ^= 1
				case 1:
					c.x ^= 1
				default:
					c.y ^= 1
				}
			}
		}
		return c
	}
	for trial := 0; trial < 40000; trial++ {
		tr := tree.CreateTree(tree.Create3DTable())
		n := 1 + rng.Intn(6)
		var cells []govcCell
		for i := 0; i < n; i++ {
			var near *govcCell
			if len(cells) > 0 {
				near = &cells[rng.Intn(len(cells))]
			}
			c := randCell(near)
			cells = append(cells, c)
			tr.Append(tree.Indexs{c.f, c.x, c.y}, tree.ZoomSetLevel(c.z), "v")
		}
		for q := 0; q < 4; q++ {
			qc := randCell(&cells[rng.Intn(len(cells))])
			want := false
			for _, c := range cells {
				if govcCellRel(c, qc) {
					want = true
				}
			}
			got := tr.IsOverlap(tree.Indexs{qc.f, qc.x, qc.y}, tree.ZoomSetLevel(qc.z))
			if got != want {
				t.Fatalf("GOVC-MODEL-REFUTED tree model: stored=%v query=%v IsOverlap=%v model=%v", cells, qc, got, want)
			}
		}
	}
}
