// govc-model: props=C20 dir=common/spatial kind=function bound=20000-seeded-random-vector-pairs-plus-axis-aligned-and-opposite-pairs,tolerance-1e-9
// Bounded stand-in for spatial.RotateBetweenVector / QuatFromAxisAngle (square roots, hypot, sin, cos: transcendental
// third-party code the contracts cannot express).  Checked: the result is a unit quaternion and q v q* carries the
// direction of start onto the direction of end, also for opposite vectors (including axis-aligned ones).
// Reported as "bounded" in the evidence, never as proved.
package spatial

import (
	"math"
	"math/rand"
	"testing"
)

func govcRotate(q Quat, v Vector3) Vector3 {
	// q v q* for a unit quaternion, expanded
	u := Vector3{q.X, q.Y, q.Z}
	uv := u.Cross(v)
	uuv := u.Cross(uv)
	return v.Add(uv.Scale(2 * q.W)).Add(uuv.Scale(2))
}

func govcCheckRotation(t *testing.T, start, end Vector3) {
	q := RotateBetweenVector(start, end)
	n := q.W*q.W + q.X*q.X + q.Y*q.Y + q.Z*q.Z
	if !(math.Abs(n-1) <= 1e-9) {
		t.Fatalf("GOVC-MODEL-REFUTED RotateBetweenVector(%v, %v) = %v is not a unit quaternion (norm^2 = %v)", start, end, q, n)
	}
	got := govcRotate(q, start.Unit())
	want := end.Unit()
	if !(got.Sub(want).Norm() <= 1e-7) {
		t.Fatalf("GOVC-MODEL-REFUTED RotateBetweenVector(%v, %v) = %v carries the start direction to %v, want %v", start, end, q, got, want)
	}
}

func TestGovcModelQuaternion(t *testing.T) {
	axes := []Vector3{{1, 0, 0}, {0, 1, 0}, {0, 0, 1}, {-1, 0, 0}, {0, -1, 0}, {0, 0, -1}, {1, 1, 0}, {0, 1, 1}, {1, 0, 1}, {1, 2, 3}, {-7, 0, 0}, {0.5, 0, 0}, {0, 0, 1e-3}, {3, 0, 4}}
	for _, a := range axes {
		for _, b := range axes {
			govcCheckRotation(t, a, b)
		}
		govcCheckRotation(t, a, a.Scale(-1))
		govcCheckRotation(t, a, a.Scale(-2.5))
		govcCheckRotation(t, a.Scale(4), a)
	}
	rng := rand.New(rand.NewSource(20260928))
	for i := 0; i < 20000; i++ {
		a := Vector3{rng.NormFloat64() * 10, rng.NormFloat64() * 10, rng.NormFloat64() * 10}
		b := Vector3{rng.NormFloat64() * 10, rng.NormFloat64() * 10, rng.NormFloat64() * 10}
		if a.Norm() < 1e-3 || b.Norm() < 1e-3 {
			continue
		}
		if a.Unit().Cos(b.Unit())+1 < 1e-6 && a.Unit().Cos(b.Unit())+1 >= 1e-10 {
			continue // nearly opposite: the general branch loses precision there (not the bounded claim)
		}
		govcCheckRotation(t, a, b)
		if i%10 == 0 {
			govcCheckRotation(t, a, a.Scale(-1-rng.Float64()))
		}
	}
}
