// govc-model: props=C20 dir=common kind=function bound=exhaustive-for-all-0<=k<=n<=12-(the-property's-own-quantifier)
// Bounded stand-in for common.Combinations, which is outside the verified subset (it updates elements of a slice
// in place).  For every 0 <= k <= n <= 12 the callback sequence is compared with an independent enumeration:
// every k-subset of 0..n-1 exactly once, strictly increasing inside, lexicographic order between, C(n,k) of them.
// Reported as "bounded" in the evidence, never as proved.
package common

import (
	"fmt"
	"testing"
)

func govcNextSubset(prev []int64, n int64) []int64 {
	// independent successor in lexicographic order (textbook formulation, scanning for the rightmost element that can grow)
	k := len(prev)
	next := append([]int64{}, prev...)
	for i := k - 1; i >= 0; i-- {
		if next[i] < n-int64(k-i) {
			next[i]++
			for j := i + 1; j < k; j++ {
				next[j] = next[j-1] + 1
			}
			return next
		}
	}
	return nil
}

func TestGovcModelCombinations(t *testing.T) {
	for n := int64(0); n <= 12; n++ {
		for k := int64(0); k <= n; k++ {
			var got [][]int64
			Combinations(n, k, func(p []int64) { got = append(got, append([]int64{}, p...)) })
			want := [][]int64{}
			cur := make([]int64, k)
			for i := range cur {
				cur[i] = int64(i)
			}
			for cur != nil {
				want = append(want, cur)
				if k == 0 {
					break
				}
				cur = govcNextSubset(cur, n)
			}
			binom := int64(1)
			for i := int64(0); i < k; i++ {
				binom = binom * (n - i) / (i + 1)
			}
			if int64(len(want)) != binom {
				t.Fatalf("reference enumeration wrong for n=%d k=%d", n, k)
			}
			if fmt.Sprint(got) != fmt.Sprint(want) {
				t.Fatalf("GOVC-MODEL-REFUTED Combinations(%d,%d) visits %v, want %v", n, k, got, want)
			}
		}
	}
}
