// govc-model: props=C01,C03,C07,C08,C09,C10,C12,C13 dir=common bound=all-exponents-and-200000-random-integers-below-2^53
// Bounded validation of the ground models of the Go standard library used in the verification conditions:
//   math.Pow(2, k) == 2^k exactly for integers -126 <= k <= 126;  math.Pow(10, k) == 10^k exactly for 0 <= k <= 12
//   math.Mod(a, b) == a - b*trunc(a/b) exactly for integers |a|, b < 2^53, b > 0
//   float64(int64 n) is exact for |n| <= 2^53;  math.Floor / int64() conversions on exactly representable values
//   strconv.Atoi / ParseInt(…,10,64) succeed exactly on optional-sign decimal digit strings in int64 range
// This is a test of assumptions, not a proof; it is reported as "bounded" in the evidence.
package common

import (
	"math"
	"math/big"
	"math/rand"
	"strconv"
	"testing"
)

func TestGovcModelMath(t *testing.T) {
	for k := -126; k <= 126; k++ {
		want := new(big.Float).SetMantExp(big.NewFloat(1), k)
		got := big.NewFloat(math.Pow(2, float64(k)))
		if want.Cmp(got) != 0 {
			t.Fatalf("GOVC-MODEL-REFUTED math.Pow(2,%d) = %v", k, got)
		}
	}
	p := 1.0
	for k := 0; k <= 12; k++ {
		if math.Pow(10, float64(k)) != p {
			t.Fatalf("GOVC-MODEL-REFUTED math.Pow(10,%d) = %v want %v", k, math.Pow(10, float64(k)), p)
		}
		p *= 10
	}
	rng := rand.New(rand.NewSource(20260928))
	for i := 0; i < 200000; i++ {
		a := rng.Int63n(1<<53) - rng.Int63n(1<<53)
		b := 1 + rng.Int63n(1<<uint(1+rng.Intn(52)))
		if i%3 == 0 {
			b = int64(1) << uint(rng.Intn(53))
		}
		if float64(a) != float64(a) || int64(float64(a)) != a {
			t.Fatalf("GOVC-MODEL-REFUTED float64(%d) not exact", a)
		}
		got := math.Mod(float64(a), float64(b))
		want := a % b // Go's % truncates toward zero like math.Mod
		if got != float64(want) {
			t.Fatalf("GOVC-MODEL-REFUTED math.Mod(%d,%d) = %v want %d", a, b, got, want)
		}
		if math.Floor(float64(a)) != float64(a) || math.Abs(float64(a)) != float64(absInt(a)) {
			t.Fatalf("GOVC-MODEL-REFUTED Floor/Abs on integer %d", a)
		}
		// Floor of a dyadic quotient: a / 2^s is exact (power-of-two scaling), floor is the integer floor
		s := uint(rng.Intn(40))
		q := float64(a) / float64(int64(1)<<s)
		if int64(math.Floor(q)) != a>>s {
			t.Fatalf("GOVC-MODEL-REFUTED floor(%d / 2^%d) = %v want %d", a, s, math.Floor(q), a>>s)
		}
	}
	for _, c := range []struct {
		s  string
		ok bool
		v  int64
	}{{"0", true, 0}, {"-1", true, -1}, {"+7", true, 7}, {"007", true, 7}, {"9223372036854775807", true, math.MaxInt64}, {"-9223372036854775808", true, math.MinInt64},
		{"9223372036854775808", false, 0}, {"", false, 0}, {" 1", false, 0}, {"1 ", false, 0}, {"1.0", false, 0}, {"0x10", false, 0}, {"a", false, 0}, {"-", false, 0}, {"1_000", false, 0}} {
		v, err := strconv.ParseInt(c.s, 10, 64)
		n, err2 := strconv.Atoi(c.s)
		if (err == nil) != c.ok || (err2 == nil) != c.ok || (c.ok && (v != c.v || int64(n) != c.v)) {
			t.Fatalf("GOVC-MODEL-REFUTED ParseInt/Atoi(%q) = %d,%v / %d,%v", c.s, v, err, n, err2)
		}
	}
	for i := 0; i < 20000; i++ {
		n := rng.Int63() - rng.Int63()
		s := strconv.FormatInt(n, 10)
		v, err := strconv.ParseInt(s, 10, 64)
		if err != nil || v != n || strconv.Itoa(int(n)) != s {
			t.Fatalf("GOVC-MODEL-REFUTED FormatInt/ParseInt round trip on %d", n)
		}
	}
}

func absInt(a int64) int64 {
	if a < 0 {
		return -a
	}
	return a
}
