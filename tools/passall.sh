#!/bin/sh
# usage: passall.sh [pattern]   — runs every must-pass patch of /verif/selftest/mustpass against the properties listed in PROPS
cd "$(dirname "$0")/.."
RC=0
grep -v '^#' selftest/mustpass/PROPS | while read P PROPS; do
  [ -z "$P" ] && continue
  case "$P" in *"${1:-}"*) tools/passcheck.sh "$(pwd)/selftest/mustpass/$P" $PROPS || RC=1;; esac
done
exit $RC
