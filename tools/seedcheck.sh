#!/bin/sh
# usage: seedcheck.sh <dir with patch.diff demo_test.go meta.json> <property> [more properties...]
# Confirms a seeded change (suite green, demo red with the change / green without) in a scratch worktree and runs the
# property checks against it.  Prints one summary line per step.
set -u
D=$(cd "$1" && pwd); shift
export GOFLAGS=-mod=mod GOPROXY=off GOSUMDB=off GOTOOLCHAIN=local
S=$(mktemp -d /tmp/seedchk.XXXXXX)
git -C /repo worktree add -q --detach "$S" HEAD || exit 2
PKG=$(grep -m1 '^package ' "$D/demo_test.go" | awk '{print $2}' | sed 's/_test$//')
case "$PKG" in
  object) DIR=common/object;; spatial) DIR=common/spatial;; errors) DIR=common/errors;; common) DIR=common;;
  *) DIR=$PKG;;
esac
cp "$D/demo_test.go" "$S/$DIR/zz_seed_demo_test.go"
( cd "$S" && go test -vet=off -count=1 ./$DIR >/dev/null 2>&1 ) && echo "demo-without-change: PASS" || echo "demo-without-change: FAIL (unexpected)"
if ! git -C "$S" apply "$D/patch.diff"; then echo "patch: DOES NOT APPLY"; git -C /repo worktree remove --force "$S"; exit 2; fi
( cd "$S" && go build ./... >/dev/null 2>&1 ) && echo "build-with-change: OK" || echo "build-with-change: FAIL"
( cd "$S" && go test -vet=off -count=1 ./$DIR >/dev/null 2>&1 ) && echo "demo-with-change: PASS (unexpected)" || echo "demo-with-change: FAIL (as intended)"
rm -f "$S/$DIR/zz_seed_demo_test.go"
( cd "$S" && go test -vet=off -count=1 ./... >/dev/null 2>&1 ) && echo "suite-with-change: PASS" || echo "suite-with-change: FAIL"
for P in "$@"; do
  V=$(mktemp -d /tmp/seedv.XXXXXX)
  cp /verif/known_findings.txt "$V/" 2>/dev/null; cp -r /verif/models "$V/models" 2>/dev/null
  OUT=$(timeout 1500 /verif/bin/govc check -repo "$S" -verif "$V" -prop "$P" 2>&1)
  RC=$?
  echo "check $P: exit=$RC $(echo "$OUT" | grep -c '^VIOLATION') violation lines"
  echo "$OUT" | grep '^VIOLATION' | sed "s|$V/||" | cut -c1-200 | head -4
  rm -rf "$V"
done
git -C /repo worktree remove --force "$S"
