#!/bin/sh
# usage: passcheck.sh <patch.diff> <property> [more properties...]
# Applies a behaviour-preserving patch to a scratch worktree of /repo and runs the given property checks there.
# Every check must exit 0 without a VIOLATION line (a false alarm otherwise).  Prints one line per check.
set -u
PATCH=$(cd "$(dirname "$1")" && pwd)/$(basename "$1"); shift
export GOFLAGS=-mod=mod GOPROXY=off GOSUMDB=off GOTOOLCHAIN=local
S=$(mktemp -d /tmp/pass.XXXXXX)
git -C /repo worktree add -q --detach "$S" HEAD || exit 2
if ! git -C "$S" apply "$PATCH"; then echo "PATCH DOES NOT APPLY"; git -C /repo worktree remove --force "$S"; exit 2; fi
RC=0
for P in "$@"; do
  V=$(mktemp -d /tmp/passv.XXXXXX); cp /verif/known_findings.txt /verif/MANIFEST.json "$V/"; cp -r /verif/models "$V/models" 2>/dev/null
  START=$(date +%s)
  OUT=$(timeout 1500 /verif/bin/govc check -repo "$S" -verif "$V" -prop "$P" 2>&1); R=$?
  N=$(echo "$OUT" | grep -c '^VIOLATION')
  if [ $R -eq 0 ] && [ "$N" -eq 0 ]; then echo "$(basename $PATCH) $P: ok $(( $(date +%s)-START ))s"; else RC=1; echo "$(basename $PATCH) $P: FALSE-ALARM exit=$R violations=$N $(( $(date +%s)-START ))s"; echo "$OUT" | grep '^VIOLATION' | sed "s|$V/||" | cut -c1-220 | head -5; echo "$OUT" | grep -A1 'translation' | head -4 | cut -c1-300; fi
  rm -rf "$V"
done
git -C /repo worktree remove --force "$S"
exit $RC
