#!/bin/sh
# usage: mutcheck.sh <patch.diff> <property> [function-filter]
# Applies a patch to a scratch worktree of /repo (HEAD + uncommitted contract files), runs the check there, removes the worktree.
set -u
PATCH=$(cd "$(dirname "$1")" && pwd)/$(basename "$1"); PROP=$2; FUNC=${3:-}
S=$(mktemp -d /tmp/mut.XXXXXX)
git -C /repo worktree add -q --detach "$S" HEAD || exit 2
# carry over uncommitted contract files
(cd /repo && git ls-files -m -o --exclude-standard | grep zz_verif_contracts.go | while read f; do cp "/repo/$f" "$S/$f"; done)
if ! git -C "$S" apply "$PATCH"; then echo "PATCH DOES NOT APPLY"; git -C /repo worktree remove --force "$S"; exit 2; fi
V=$(mktemp -d /tmp/mutv.XXXXXX)
cp /verif/known_findings.txt "$V/" 2>/dev/null; cp -r /verif/models "$V/models" 2>/dev/null
if [ -n "$FUNC" ]; then
  timeout 900 /verif/bin/govc check -repo "$S" -verif "$V" -prop "$PROP" -func "$FUNC" 2>&1 | grep -v "^  " | cut -c1-220
else
  timeout 900 /verif/bin/govc check -repo "$S" -verif "$V" -prop "$PROP" 2>&1 | grep -v "^  " | cut -c1-220
fi
RC=$?
git -C /repo worktree remove --force "$S"
rm -rf "$V"
exit $RC
