#!/usr/bin/env python3
"""Builds /verif/seeded/RESULTS.md from the logs written by tools/seedcheck.sh (kept under /verif/seeded/logs)."""
import json, re, glob, os

NOTES = {
 "C03-3": "list-level change (de-duplication moved inside the loop): caught by the exact set-level contract of the zoom change that was added late ([sound]/[covers] invariants and [nodup], the latter with a replayed input)",
 "C03-4": "list-level fast path with a copy-paste slip: [covers]/[sound] fail, and the single-zoom-out case gives a replayed failing input",
 "C08-3": "N-layer query: centre excluded by result instead of by offset - caught by the exact membership contract ([sound] and the row invariant)",
 "C08-4": "N-layer query: wrong upper bound of the vertical loop - caught by the exact membership contract ([bounds], [covers-y], [sound])",
 "C11-2": "the de-duplication map moves inside the per-ID loop, so the invariant [pairs-recorded] of the outer loop names a variable that is not in scope there any more (contract error => VIOLATION without input); the hand-written variant `selftest/mustfail/C11_duplicate_pairs_kept.diff` (duplicates appended instead of skipped) fails the invariants [current-new] / [current-distinct] semantically",
 "C17-2": "caught by the clause [no-error-when-valid] that was added after the first C17 version (which had only the error direction)",
 "C04-3": "MISSED: the eligibility filter treats IDs whose vertical zoom equals the target as 'coarser' (returned unchanged); like C04-2 this is only visible through the density rule of the merge, which is not under contract (aliased unit-cell maps)",
 "C11-3": "MISSED: `break` instead of `continue` when a pair was already reported drops the remaining vertical indices of that quadkey; the list-level contract has duplicate-freedom and group parameters but no coverage clause.  Coverage invariants for the pair loops caught it but destabilised unrelated obligations of the function and were withdrawn (DESIGN 7.1)",
 "C09-3": "fast path with a wrong index in the zoom change: the exact set-level contract ([covers]/[sound] invariants) and the single-zoom-out case fail, under C09 and under C03",
 "C17-3": "per-call cache keyed without the height range: detected through the loop invariant of the changed loop and a string-model bound, i.e. as *undecided* (no semantic clause about the reverse direction exists: convertBitToVerticalID is assumed total)",
 "C20-3": "wrong operand in one entry of Matrix3.Mul: postcondition [row2] of the new spatial contracts fails, with the solver's model (two matrices) replayed on the changed code",
 "C20-4": "opposite vectors on the X axis get a zero rotation axis (NaN quaternion): the quaternion helpers are outside the verified subset, so this is caught only by the BOUNDED stand-in /verif/models/bounded_quaternion_test.go (failing input printed by the test), not by a proof obligation",
 "C04-2": "MISSED: the eligibility fast path changes which inputs are fused; deciding it needs the density rule of the merge, which is not under contract (aliased unit-cell maps)",
 "C06-1": "detected because the callback closure no longer has the form `v = append(v, x)` the emit idiom supports (translation failure => VIOLATION without input): undecided rather than refuted",
 "C06-2": "missed by the first version of the C06 check; caught after the midpoint recursion got its gap-freedom precondition (no stop threshold may exceed the smallest voxel extent on its axis): R obligation `threshold-below-voxel-size` fails for hZoom >= 31",
 "C14-2": "MISSED: the distance filter feeds an accumulated convex hull to the third-party distance measurement; the contracts abstract that measurement completely",
 "C16-1": "first run: detected only through a translation failure (slices.Sort not modelled); after the frame rule was extended to `slices.*` / `sort.*` mutators and append sites the two calls are F violations (write through a parameter)",
 "C16-2": "missed in the first evaluation (the merge had no contract); since the merge got loop invariants for its error / duplicate / coarser-kept clauses, fusing two of its loops makes those invariants (keyed by loop ordinal) unusable: reported as a translation failure, i.e. an *undecided* alarm, not a refutation of order-blindness",
 "C19-2": "missed by the first version (a store analysis that did not treat append as a write); caught after `append` into a slice that is not nil / local / fresh / capped became a store site: F violation `append into spare capacity` on the package-level buffer",
 "C05-2": "missed by the first version of the C05 check (radix-tree form not under contract); caught after the spatial-ID form got an exact contract over an assumed abstract tree contract (ghost relation `stored`): the loop invariant `tree-holds-first-list` is not preserved",
 "C10-2": "first run: translation failure (strconv.ParseUint had no model) - reported, but without a semantic reason; after adding the ParseUint model the `err-iff-arity` postcondition fails with a replayed input",
 "C13-1": "detected because the loop invariants no longer type-check against the changed map representation (contract error => VIOLATION without input): an honest 'undecided', not a semantic refutation; a harmless change of the map's key type would raise the same alarm",
}

def parse(path):
    out = {}
    cur = None
    for ln in open(path, errors='replace'):
        ln = ln.rstrip('\n')
        m = re.match(r'=== (\S+)', ln)
        if m:
            cur = out.setdefault(m.group(1), {"steps": [], "checks": [], "viol": []})
            continue
        if cur is None:
            continue
        if re.match(r'(demo|build|suite|patch)', ln):
            cur["steps"].append(ln)
        m = re.match(r'check (\S+): exit=(\d+) (\d+) violation', ln)
        if m:
            cur["checks"].append((m.group(1), int(m.group(2)), int(m.group(3))))
        if ln.startswith('VIOLATION'):
            cur["viol"].append(ln)
        m = re.match(r'time (\d+)s', ln)
        if m:
            cur["time"] = int(m.group(1))
    return out

def main():
    res = {}
    for f in sorted(glob.glob('/verif/seeded/logs/*.log')):
        res.update(parse(f))
    lines = ["# Seeded changes: which check catches which", "",
             "Generated by `tools/seed_results.py` from the logs of `tools/seedcheck.sh` (in `seeded/logs/`).",
             "Each change was written by a sub-agent that saw only the property text; `seedcheck.sh` re-confirms it in a scratch",
             "worktree (demo passes without the change, fails with it; `go build` and the full suite stay green) and then runs the",
             "property's quick check against the changed tree.  *replayed* = number of VIOLATION lines that carry a failing input",
             "confirmed on the real (changed) code; the others end in `no-failing-input-found`.", "",
             "| seed | what the change does | confirmed (demo red/green, suite green) | check | result | violations | replayed | time | first failing obligation |",
             "|---|---|---|---|---|---|---|---|---|"]
    for sid in sorted(res):
        r = res[sid]
        meta = {}
        try:
            meta = json.load(open(f'/verif/seeded/{sid}/meta.json'))
        except Exception:
            pass
        what = meta.get("what", "").replace("|", "/").replace("\n", " ")
        if len(what) > 260:
            what = what[:257] + "..."
        ok = all(('PASS' in s and 'unexpected' not in s) or 'OK' in s or 'as intended' in s for s in r["steps"]) and len(r["steps"]) >= 4
        for (prop, rc, n) in r["checks"] or [("-", -1, 0)]:
            replayed = sum(1 for v in r["viol"] if f'property={prop}' in v and 'no-failing-input-found' not in v)
            first = next((v for v in r["viol"] if f'property={prop}' in v), '')
            first = re.sub(r'.*replays/[^/]+/', '', first).replace('.json', '').replace(' no-failing-input-found', '')
            result = "CAUGHT" if rc == 1 and n > 0 else ("MISSED" if rc == 0 else f"exit={rc}")
            lines.append(f"| {sid} | {what} | {'yes' if ok else 'NO: ' + '; '.join(r['steps'])} | {prop} | {result} | {n} | {replayed} | {r.get('time','?')}s | `{first}` |")
    lines.append("")
    lines.append("## Notes")
    for k in sorted(NOTES):
        lines.append(f"* **{k}** — {NOTES[k]}")
    lines.append("")
    open('/verif/seeded/RESULTS.md', 'w').write("\n".join(lines))
    print("\n".join(lines[9:9+40]))

if __name__ == '__main__':
    main()
