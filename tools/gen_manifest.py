#!/usr/bin/env python3
"""Regenerates /verif/MANIFEST.json from the table below (run after changing what is claimed)."""
import json, subprocess, sys

BASELINE_OFF = ("for m in $(cat /w/out/gomods.txt); do MF=$(cd /repo/$m && . /w/out/goenv.sh && gomodflag); "
                "(cd /repo/$m && go test $MF -json -vet=off -count=1 -timeout 25m ./...); done")

TRUST = ("Trusted: SMT solvers (z3 5.1.0 primary; z3 4.8.12 / cvc5 fall back; thorough tier cross-checks), the govc VC generator and its "
         "constant folder (exercised by the must-fail corpus in /verif/selftest), go/ssa as a faithful view of the compiled program (amd64), "
         "the ground models of strings.Split/Join, strconv.ParseInt/Atoi/FormatInt and math.Pow/Mod/Abs/Floor listed in each evidence file. ")

CLAIMS = {
    "C01": dict(
        text="The vertical index is proved to be floor(alt*2^v/2^25) under IEEE semantics for every zoom (both float operations are power-of-two scalings with explicit no-underflow obligations); the horizontal kernel is proved equal to the property's x and y formulas over ideal reals (x with the lon=180 fold, y through the trusted identity log(tan p+1/cos p)=asinh(tan p)); 0 <= x < 2^h is proved under IEEE semantics for every longitude of the domain; the list functions are proved to reject bad zooms and nil points and otherwise to return, in order and with the same length, the horizontal tile joined with the vertical tile of each point (spatial-ID form: same components in z/f/x/y order).",
        note=TRUST + "Rounding of the x and y computations is NOT decided: two witness findings (KNOWN-FINDING lines) record that x can be one too large within one rounding step below a tile edge and that a negative subnormal altitude gets index 0 (a third, x = 2^h just below lon = 180, was repaired). The Mercator bound |asinh(tan lat)| <= pi for |lat| <= 85.0511287798 is assumed.",
        tech="deductive verification: WP VCs over go/ssa, real-arithmetic float model (exact power-of-two scalings, ideal reals for transcendental parts), pure-function abstraction, SMT", ref="4 C01"),
    "C15": dict(
        text="Every exported error-returning function of shape, integrate, operated, detector, transform and object except the two projection wrappers (third-party wgs84 closure, see C18) is under contract: for every string, integer and float argument the function does not panic (S obligations on every index, slice, nil dereference, division and conversion of the function and of the repository callees it is verified against), and the documented refusals are postconditions: zoom outside 0..35 (1..31 for quadkeys), malformed IDs (wrong arity or non-integer fields, exact iff where the function parses all fields), nil points, unknown options, negative layer counts and radii, longitude/latitude limits with the 1e-10 latitude cut, negative tile zooms; the shift helpers return the empty ID.",
        note=TRUST + "Callees outside the verified subset are ASSUMED to terminate without panicking (listed in the evidence as assumed contracts): the midpoint recursion of the line, the unit-cell helpers of the merge (aliased maps), the binary-subdivision altitude helper, the third-party geodesy / convex-distance / radix-tree code. The corridor is verified for layer counts up to 1024 (assumecall restriction). ConvertPointListToProjectedPointList / ConvertProjectedPointListToPointList are not under contract.",
        tech="deductive verification: WP VCs over go/ssa with safety obligations on every instruction, modular callee contracts, SMT", ref="4 C15"),
    "C04": dict(category="other",
        text="PARTIAL. Proved: the grouping ancestor (ExtendedSpatialID.Higher) is the floor ancestor on every axis for all 36x36 zoom differences and indices of both signs (the defect at f = -1/0 was repaired, see known_findings.txt); MergeExtendedSpatialIds / MergeSpatialIds reject zooms outside 0..35 and malformed IDs exactly, do not panic, return a duplicate-free list (postcondition of Unique), and return every input that is coarser than the target on either axis unchanged (in canonical spelling).",
        note=TRUST + "NOT decided: region equality, the density rule and idempotence. The merge body keeps aliased unit-cell maps (map[string]*HighSpatialID sharing map[string]struct{}), outside the verified subset; NewUnitDividedSpatialID, NewHighSpatialID, Merge and IsDense are assumed total and otherwise unconstrained.",
        tech="deductive verification of the kernel and of the wrapper's error/duplicate clauses (WP VCs over go/ssa, SMT); remaining clauses not applicable to the technique as built", ref="4 C04"),
    "C06": dict(category="other",
        text="PARTIAL. Proved for GetExtendedSpatialIdsOnLine / GetSpatialIdsOnLine: nil end points and zooms outside 0..35 are errors; otherwise the result is duplicate-free, contains the voxel of each end point (the same IDs the point lookup of C01 returns) and is exactly that one ID when both end points share a voxel.",
        note=TRUST + "NOT decided: that every returned voxel is touched by the segment and that the chain has no gaps - these depend on the float midpoint recursion (middleSpatialIds), which is only assumed to terminate and to emit IDs through its callback (emit idiom).",
        tech="deductive verification of the wrapper (WP VCs over go/ssa, callback modelled as an unknown emitted sequence appended to the captured slice, SMT)", ref="4 C06"),
    "C14": dict(category="other",
        text="PARTIAL. Proved for GetExtendedSpatialIdsWithinRadiusOfLine and FitClearanceAroundExtendedSpatialID: nil points, zooms outside 0..35, negative radius / clearance and malformed IDs are errors; no panic in the repository code; reported layer counts are non-negative; the corridor result is duplicate-free and contains every ID that the line query returned for the same arguments (postcondition over the result of that call in the body, proved from the set-level contracts of Union and Unique); the layer fit uses the start point's own ID (order-determinism obligations of C16, after the repair recorded in known_findings.txt).",
        note=TRUST + "NOT decided: the radius-0 identity, the distance bound and the subset relation between the two modes (third-party convex-distance and geodesy code, assumed total). Verified for layer counts up to 1024.",
        tech="deductive verification of error and duplicate clauses (WP VCs over go/ssa, SMT) with third-party code abstracted", ref="4 C14"),
    "C11": dict(
        text="PARTIAL (kernels and error behaviour). Proved: convertHorizontalIDToQuadkey returns the bit interleave of (x, y) for every zoom 1..31 (closed-form specification, zoom x loop-index case split); convertQuadkeyToHorizontalID de-interleaves every key 0 <= q < 4^zoom for every zoom and every digit count, including keys with leading zero digits (loop invariant over opaque bit symbols, with the digit/bit lemmas proved separately and instantiated); the list-level conversions reject zooms outside 1..31 / 0..35, malformed IDs and inverted height ranges, do not panic, the keys-to-IDs direction returns a duplicate-free list of five-field IDs and accepts every valid request; in the IDs-to-keys directions no (quadkey, vertical index / altitude key) pair is reported twice within or across the returned groups (loop invariants over the de-duplication map), and every group carries the request's output zooms and height-range / altitude-base parameters unchanged.",
        note=TRUST + "NOT decided: that the two closed-form specifications (interleave / de-interleave) are mutually inverse - a mathematical fact about the specifications, stated as a lemma but not finished by the solvers for the larger zooms and therefore removed; the list-level round trip and the agreement with the zoom change across different output zooms (the pairs themselves are not characterised, only their distinctness: a change that drops pairs is not detected, seed C11-3). strconv.FormatInt(q, 4) followed by strings.Split(., \"\") is modelled as the base-4 digit sequence of q (trusted model).",
        tech="deductive verification: WP VCs over go/ssa, exhaustive zoom / digit-count / loop-index case split, opaque bit symbols with instantiated lemmas, SMT (linear integer arithmetic)", ref="4 C11"),
    "C02": dict(category="other",
        text="PARTIAL, over ideal reals. Proved for every horizontal zoom 0..35 (and 36x36 zoom pairs at the top level): the vertex query returns eight points in the documented order NW, NE, SE, SW (bottom) then top, with longitudes 360*x/2^h-180 and 360*(x+1)/2^h-180, latitudes atan(sinh(pi*(1-2y/2^h))) and the same for y+1 (each cut toward zero at 1e-10 degrees by the point constructor), altitudes f*2^(25-v) and (f+1)*2^(25-v); the centre query returns the midpoint on every axis; a valid extended ID is parsed and dispatched to exactly these (option 0 = vertex, 1 = centre); as a lemma over these contracts the centre of a voxel is mapped back by the point lookup to the voxel's own column x and vertical layer f at the same zooms (two of the three components of the round-trip clause), and neighbouring voxels report the same longitude / cut latitude / altitude for the face they share (east, south and top neighbours, all zooms), i.e. the grid tiles space over ideal reals; unknown options, malformed IDs and zooms outside 0..35 are errors and nothing panics (C15 part, IEEE semantics).",
        note=TRUST + "float64 arithmetic is treated as real arithmetic in the functional clauses (a change of a formula, an index, the corner order or the option dispatch is detected; rounding effects are not): NOT decided are the row component y of the round trip centre -> ID (needs atan(sinh) / asinh(tan) to be inverse and the 1e-10 cut to stay inside the row; x and f are proved over ideal reals) and the bit-exact coincidence of shared faces under float64 rounding (their coincidence over ideal reals is a proved lemma). atan, sinh are uninterpreted; that the edges of every grid row pass the constructor's latitude limit is a stated (trusted) precondition.",
        tech="deductive verification: WP VCs over go/ssa with float64 as ideal reals, uninterpreted transcendental functions, zoom case split, SMT", ref="4 C02"),
    "C17": dict(category="other",
        text="PARTIAL, over ideal reals. Proved for every output zoom 0..35: calcBitIndex returns the index of the cell of the 2^zoom-fold binary subdivision of [minHeight, maxHeight) that contains the altitude (loop invariant: the current interval is cell bitIndex of the 2^i-fold subdivision), 0 for altitudes below the range and 2^zoom-1 above it (clamped, never rejected), always within 0..2^zoom-1, and is monotone in the altitude (lemma); convertVerticallIDToBit returns exactly the top cell, the bottom cell and the cells in between in ascending order - a duplicate-free contiguous run from the cell of f*2^(25-v) to the cell of (f+1)*2^(25-v) - for every vertical zoom; maxHeight < minHeight and invalid zooms are errors in both list-level directions.",
        note=TRUST + "float64 arithmetic is treated as real arithmetic (float comparisons at the subdivision borders are not decided). The reverse direction (convertBitToVerticalID: cell -> vertical indices via the point lookup and string surgery) is only assumed to terminate without panicking.",
        tech="deductive verification: WP VCs over go/ssa with float64 as ideal reals, zoom x loop-index case split, lemma over the pure-function contract, SMT (nonlinear real arithmetic on small queries)", ref="4 C17"),
    "C03": dict(
        text="Contracts on the real per-axis kernels (HorizontalZoomMinMax, HorizontalZoom, VerticalZoom) prove, for every (input zoom, output zoom) pair in 0..35^2 and every index, the exact enumeration: zoom-in yields the 2^d (4^d) descendants in row-major order, zoom-out the floor ancestor (negative vertical indices included). Loop invariants are quantified, so list lengths are unbounded. The list-level function is proved against the exact set-level specification: the result is duplicate-free and contains exactly the elements of the cross products of the per-axis results of the input IDs (both directions, for lists of any length), with the exact error behaviour.",
        note=TRUST + "The set-level invariants are stated over opaque symbols for the joined ID and for the per-axis results, whose defining equations are available as triggered axioms (DESIGN 2.1).",
        tech="deductive verification: weakest-precondition VCs over go/ssa with contracts, exhaustive zoom case split, SMT (z3)", ref="4 C03"),
    "C05": dict(
        text="The extended-ID checks are proved exact: CheckExtendedSpatialIdsOverlap returns true iff the two voxels' ancestors at the coarser zoom coincide on both axes (for all valid IDs, all zooms symbolic), errors give false; the array form is proved equal to the disjunction of the pairwise relation with empty lists giving false (nested quantified invariants); symmetry and reflexivity are lemmas. The D obligations (constant index into map-ordered slices) are discharged from the zoom-change contract. The spatial-ID (radix-tree) forms are proved exact as well (array form = disjunction over all pairs of the ancestor-or-equal relation on (f+2^(z-1), x, y) for zooms 1..35 and altitudes within +-2^24 m; single-pair form; symmetry and reflexivity lemma) relative to an ASSUMED abstract contract of the third-party tree (ghost set of appended cells; IsOverlap = some stored cell is an ancestor, descendant or equal).",
        note=TRUST + "The radix tree itself is third-party code: its contract is assumed, and validated on every run only by a bounded randomised model test against the real tree (reported under bounded_checks, not counted as proof).",
        tech="deductive verification: WP VCs over go/ssa, modular callee contracts with case analysis, opaque spec relation, SMT", ref="4 C05"),
    "C09": dict(
        text="Lemmas over the verified kernel contracts: zooming in and back out is the identity on each axis for all 36x36 zoom pairs, descendants partition the finer grid, the ancestor of -1 is -1, Higher (the merge ancestor) is the floor ancestor; the exactness of the pairwise overlap relation (C05) gives overlap of nested voxels; the vertical index of a point at a coarser zoom is the floor ancestor of its index at any finer zoom (lemma over the exact contract of the vertical kernel, all 36x36 zoom pairs, IEEE semantics), and likewise for x and y over ideal reals; a second pair of lemmas states the same through the real zoom-change functions: the zoom-out (VerticalZoom / HorizontalZoom contracts) of a point's fine ID is exactly the point's coarse ID, for all zoom pairs.",
        note=TRUST + "The clause 'merging the complete set of descendants returns the ID' depends on the merge body (C04, not decided). The horizontal nesting lemma inherits the ideal-real reading of C01's x and y formulas.",
        tech="deductive verification: lemmas over function contracts, exhaustive zoom case split, SMT", ref="4 C09"),
    "C13": dict(
        text="ConvertTileXYZsToExtendedSpatialIDs is proved against an exact set-level specification: no error iff every tile is in range, the result is duplicate-free and contains exactly the IDs (hZoom,x,y,outV,z) with z in the covering range of C12 of some tile, nil on error; loop and map invariants are quantified over lists of any length.",
        note=TRUST + "The spatial-ID variant is proved to fail exactly when the extended-ID conversion it calls fails and to return nothing on error; that its result is the expansion (C10) of those extended IDs is composition of two verified contracts, not a postcondition of its own. The TileXYZ setters are covered by the sweep only.",
        tech="deductive verification: WP VCs over go/ssa, heap model for tile objects, map model with struct keys, SMT", ref="4 C13"),
    "C16": dict(
        text="Inputs unmodified: every store site of the library is an F obligation discharged by provenance analysis (no store through a parameter). Order-blindness: every constant-index observation of a slice ordered by map iteration is a D obligation discharged by SMT from the callee contracts. Duplicate-freedom and set-determinism of Unique/Union/Difference/deleteDuplicationList and of the tile and neighbourhood conversions are postconditions proved with map iteration order universally quantified.",
        note=TRUST + "Set-level determinism of merge, line and corridor rests on the set helpers' contracts only; their own bodies are not fully under contract.",
        tech="deductive verification (SMT) plus SSA provenance analysis for frame and order obligations", ref="4 C16"),
    "C19": dict(category="other",
        text="Frame statement instead of schedules: every store / map update of every function of the library is shown to target memory allocated by the same call, returned fresh by a constructor or the receiver of a declared mutator; no package-level variable is written outside init; dependency code reachable from the library writes no package-level state. A package-level cache or scratch buffer fails an F obligation at its store site.",
        note="Schedules are not explored; the Go standard library and the per-object effects of the dependencies are trusted; the analysis is syntactic provenance on go/ssa, not SMT.",
        tech="frame obligations discharged by SSA provenance analysis over the whole library and reachable dependency code", ref="4 C19"),
    "C07": dict(
        text="GetShiftingSpatialID is proved against the modular-translation specification for every canonical ID at every zoom 0..35 (zoom case split, all indices and shifts symbolic within the stated bounds), malformed IDs give the empty string, and zero-shift / composition / inverse laws are lemmas over the contract.",
        note=TRUST + "math.Pow(2,k) and math.Mod on integers below 2^53 are modelled exactly (trusted, validated by setup).",
        tech="deductive verification: WP VCs over go/ssa, callee parse loop unrolled, shaped string parameter, SMT", ref="4 C07"),
    "C08": dict(
        text="The 6-, 8- and 26-neighbour functions are proved to return exactly the shifts by the stencil offsets in the documented order for every canonical ID and zoom; distinctness, irreflexivity and symmetry for 3 <= 2^h are lemmas over those contracts. The N-layer query is proved exact: for every list and all layer counts up to 1024 the result is duplicate-free and consists of exactly the shifts of the input IDs by the offsets of the (2h+1)^2 (2v+1) box without its centre (both directions, invariants over the four nested loops), negative layer counts are errors.",
        note=TRUST + "Layer counts are bounded by 1024 (the capacity computation of the result slice overflows / allocates without bound beyond that).",
        tech="deductive verification: WP VCs over go/ssa with complete loop unrolling, lemmas over contracts, SMT", ref="4 C08"),
    "C10": dict(
        text="The notation conversions are proved to be the stated component permutations for lists of any length (quantified loop invariants), arity errors are reported exactly, the round trip is the identity (lemma over the two contracts), and the extended-ID parser stores exactly the five parsed numbers.",
        note=TRUST,
        tech="deductive verification: WP VCs over go/ssa, algebraic-datatype string model, SMT", ref="4 C10"),
    "C12": dict(
        text="Both altitude-key conversions and their helpers are proved against an exact integer specification (altitudes scaled by 2^35) for every (zoom, zoom, exponent) triple in 0..35^3 with symbolic indices and offsets: never loses altitude, stays within the metre-widened range, exact when the source cell is at least one metre, error conditions, and mutual consistency of the two directions (lemma).",
        note=TRUST + "Base offsets are bounded by |offset| <= 2^27 (beyond that the int64 shifts wrap; stated precondition).",
        tech="deductive verification: WP VCs over go/ssa, modular callee contracts, exhaustive 36^3 case split, SMT (linear integer arithmetic)", ref="4 C12"),
    "C20": dict(
        text="Union, Difference, Intersect, Unique, Include, Max, Min are proved (generic bodies and the instances used in the library) against set-theoretic postconditions with map iteration order universally quantified; CalculateArithmeticShift equals floor(index*2^shift) for every shift in -63..63. Over ideal reals: every vector, point, line and matrix helper of package spatial (16 functions; the gonum r3 functions they delegate to are translated from their source and verified inline) is proved equal to its component formula, and the laws are lemmas over those contracts: a line's parameter 0 / 1 and Start / End give its end points, the matrix product is associative and agrees with matrix-vector application, the unit matrix is neutral, cross product anticommutative / orthogonal to its factors / zero on equal arguments, dot product commutative, add-sub and translate-by-difference round trips (polynomial identities discharged by z3's nonlinear real procedure). BOUNDED stand-ins, not proofs: Combinations (exhaustive for all 0 <= k <= n <= 12, the property's own quantifier) and the quaternion helpers (unit quaternion carrying start onto end, 20000 seeded random pairs plus axis-aligned and opposite pairs).",
        note=TRUST + "float64 arithmetic of the spatial helpers is treated as real arithmetic (rounding not decided). Combinations (in-place slice updates) and RotateBetweenVector / QuatFromAxisAngle (sqrt, hypot, sin, cos) are outside the verified subset: they are covered only by the bounded checks in /verif/models, which are listed under bounded_checks in the evidence and never counted as discharged obligations. Norm, Unit, Cos, DistancePoint, IsClose, MaxPoint, MinPoint are not under contract.",
        tech="deductive verification: WP VCs over go/ssa (dependency source inlined), quantified loop invariants, map-range bijection model, lemmas over contracts with z3 nlsat for polynomial identities; bounded differential tests only as labelled stand-ins", ref="4 C20"),
}

NOT_YET = {}


def main():
    props = [json.loads(l) for l in open('/verif/properties.jsonl')]
    hooks = subprocess.run(['git', '-C', '/repo', 'log', '--format=%H %s'], capture_output=True, text=True).stdout.strip().split('\n')
    hook_commits = [l.split()[0] for l in hooks if l.split(' ', 1)[1].startswith('verif:')]
    na_reasons = json.load(open('/verif/tools/not_applicable.json'))
    checks = []
    for p in props:
        pid = p['id']
        if pid not in CLAIMS:
            continue
        c = CLAIMS[pid]
        checks.append({
            "property_id": pid,
            "quick_cmd": f"./check {pid} quick",
            "thorough_cmd": f"./check {pid} thorough",
            "evidence_file": f"/verif/evidence/{pid}.json",
            "replay_cmd_template": f"./check {pid} --replay {{path}}",
            "engine": "govc",
            "level_claimed": {"category": c.get("category", "proof"), "text": c["text"], "design_ref": c["ref"]},
            "level_note": c["note"],
            "technique": c["tech"],
        })
    na = []
    for p in props:
        if p['id'] not in CLAIMS:
            na.append({"property_id": p['id'], "reason": na_reasons.get(p['id'], "no check built yet in this session (see DESIGN.md section 4 for the planned contracts)")})
    m = {
        "version": 1,
        "setup_cmd": "./setup.sh",
        "hooks": {
            "guard": "verif",
            "enable": "contracts are comment-only files zz_verif_contracts.go behind the build tag `verif`; govc loads /repo with -tags=verif; no executable code is added",
            "baseline_off_cmd": BASELINE_OFF,
            "source_commits": hook_commits,
            "add_only": True,
        },
        "engines": [{
            "name": "govc", "path": "/verif/govc",
            "serves_properties": sorted(CLAIMS.keys()),
            "kind_free_text": "contract-based deductive verifier for Go written for this task: contracts in //@ comments, weakest-precondition VCs over go/ssa, z3/cvc5 back ends, counterexample replay on the real code",
        }],
        "checks": checks,
        "not_applicable": na,
        "notes": "See DESIGN.md. Known findings and fixed defects: /verif/known_findings.txt.",
    }
    json.dump(m, open('/verif/MANIFEST.json', 'w'), indent=1)
    print("claimed:", sorted(CLAIMS.keys()), "not applicable:", [x['property_id'] for x in na])


if __name__ == '__main__':
    main()
