#!/bin/sh
# usage: selftest.sh [pattern]
# Must-fail corpus: applies every patch of /verif/selftest/mustfail (name = <property>_<what>.diff) and every seeded
# change of /verif/seeded/<property>-<n>/patch.diff to a scratch worktree of /repo, runs the property's quick check
# there and expects exit 1 with a VIOLATION line.  Prints one line per patch; exit 1 if a patch listed in
# /verif/selftest/EXPECTED_CAUGHT is not caught (a vacuity alarm for the engine).
set -u
export GOFLAGS=-mod=mod GOPROXY=off GOSUMDB=off GOTOOLCHAIN=local
PAT=${1:-}
BAD=0
run() { # name patch prop
  NAME=$1; PATCH=$2; PROP=$3
  S=$(mktemp -d /tmp/self.XXXXXX)
  git -C /repo worktree add -q --detach "$S" HEAD || exit 2
  if ! git -C "$S" apply "$PATCH" 2>/dev/null; then echo "$NAME: PATCH-DOES-NOT-APPLY"; git -C /repo worktree remove --force "$S"; return; fi
  V=$(mktemp -d /tmp/selfv.XXXXXX); cp /verif/known_findings.txt "$V/"; cp -r /verif/models "$V/models" 2>/dev/null
  START=$(date +%s)
  OUT=$(timeout 1200 /verif/bin/govc check -repo "$S" -verif "$V" -prop "$PROP" 2>&1); RC=$?
  N=$(echo "$OUT" | grep -c '^VIOLATION')
  C=$(echo "$OUT" | grep '^VIOLATION' | grep -vc 'no-failing-input-found')
  FIRST=$(echo "$OUT" | grep -m1 '^VIOLATION' | sed "s|.*replays/$PROP/||" | cut -c1-90)
  if [ $RC -eq 1 ] && [ "$N" -gt 0 ]; then R=CAUGHT; else R="MISSED(exit=$RC)"; fi
  echo "$NAME: $R violations=$N replayed-inputs=$C $(( $(date +%s)-START ))s first=$FIRST"
  if [ "$R" != CAUGHT ] && grep -qx "$NAME" /verif/selftest/EXPECTED_CAUGHT 2>/dev/null; then BAD=1; fi
  git -C /repo worktree remove --force "$S"; rm -rf "$V"
}
for P in /verif/selftest/mustfail/*.diff; do
  B=$(basename "$P" .diff); PROP=${B%%_*}
  case "$B" in *"$PAT"*) run "$B" "$P" "$PROP";; esac
done
for D in /verif/seeded/C*-*/; do
  B=$(basename "$D"); PROP=${B%%-*}
  case "$B" in *"$PAT"*) run "seeded/$B" "$D/patch.diff" "$PROP";; esac
done
exit $BAD
